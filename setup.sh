#!/bin/sh
# Offline setup: verify the toolchain and SANY-parse every specification. Builds nothing that needs a network.
set -e
cd "$(dirname "$0")"
java -version 2>&1 | head -1
/venv/bin/python -c "import numpy, scipy, cma, dill, treelib, jsonschema; print('python deps ok')"
cd spec
for f in *.tla; do
  tla-sany "$f" >/dev/null 2>&1 || { echo "SANY failed on $f"; tla-sany "$f" | tail -20; exit 1; }
done
cd ..
echo "specs parse"
mkdir -p work evidence
echo "setup ok"
