SPECIFICATION Spec
INVARIANT AllInvariant
INVARIANT WriteOut
CHECK_DEADLOCK FALSE
