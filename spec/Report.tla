------------------------------- MODULE Report -------------------------------
(***************************************************************************)
(* C20: what summary() / tree() must contain, as a function of the         *)
(* projected tree (tree.py:214-253, 267-285; utils/print_tree.py:12-44).   *)
(* sn: a snapshot record as logged by the recorder (public attributes).    *)
(***************************************************************************)
EXTENDS Integers, Sequences, FiniteSets, SequencesExt

R_LevelDemes(sn, l) == SelectSeq(sn.demes, LAMBDA r : r.lix = l)
R_LevelEvals(sn, l) == FoldSeq(LAMBDA r, acc : acc + r.ev, 0, R_LevelDemes(sn, l))
\* one line for the root and for every deme that has run at least one metaepoch
R_Displayed(sn) == {sn.demes[i].id : i \in {k \in DOMAIN sn.demes : sn.demes[k].id = "root" \/ sn.demes[k].me >= 1}}
R_Rec(sn, d)    == sn.demes[CHOOSE i \in DOMAIN sn.demes : sn.demes[i].id = d]

R_HeaderOK(sn, rep) == rep.mc = sn.mc /\ rep.tev = sn.tev /\ rep.ndemes = Len(sn.demes) /\ rep.bestfit_ok = 1
R_LevelsOK(sn, rep) ==
    /\ Len(rep.levels) = Len(sn.levels)
    /\ \A l \in DOMAIN rep.levels :
         IF R_LevelDemes(sn, l - 1) = <<>> THEN rep.levels[l].empty = 1
         ELSE /\ rep.levels[l].empty = 0
              /\ rep.levels[l].nev = R_LevelEvals(sn, l - 1)
              /\ rep.levels[l].nd = Len(R_LevelDemes(sn, l - 1))
R_LinesOK(sn, rep) ==
    /\ {rep.lines[i].id : i \in DOMAIN rep.lines} = R_Displayed(sn)
    /\ Len(rep.lines) = Cardinality(R_Displayed(sn))
    /\ \A i \in DOMAIN rep.lines :
         rep.lines[i].id \in R_Displayed(sn) =>
            rep.lines[i].ev = R_Rec(sn, rep.lines[i].id).ev
\* the *** marker on exactly the displayed demes whose best fitness equals the global best
R_MarkerOK(rep) ==
    \A i \in DOMAIN rep.lines :
        \A j \in DOMAIN rep.isbest : rep.isbest[j][1] = rep.lines[i].id => rep.lines[i].star = rep.isbest[j][2]
=============================================================================
