------------------------------ MODULE PairTrace ------------------------------
(***************************************************************************)
(* 2-safety by self-composition: two recorded traces that the property     *)
(* requires to be the same behaviour are compared event by event.          *)
(*   kind "twin"   (C13) a run on (f, maximize) and its mirror on          *)
(*                 (-f, minimize): identical genome ids, goodness ranks,   *)
(*                 tree projections and history digests at every event;    *)
(*   kind "repeat" (C14) two runs of one seeded configuration started from *)
(*                 different global RNG states / processes / hash seeds.   *)
(* Genome ids are first-seen indices and ranks are dense goodness ranks,   *)
(* so equality of the streams means the same genomes were visited in the   *)
(* same order with the same fitness order; digests carry the values.       *)
(***************************************************************************)
EXTENDS Integers, Sequences, TLC, Json, IOUtils

Pairs == JsonDeserialize(IOEnv.VERIF_PAIRS)

VARIABLES pid, l, diff
vars == <<pid, l, diff>>

A == Pairs[pid].a
B == Pairs[pid].b
MinLen == IF Len(A) < Len(B) THEN Len(A) ELSE Len(B)

\* the only fields allowed to differ: the direction flag and the name of the configuration
Norm(e) == IF e.e = "start" THEN [e EXCEPT !.cfg = [@ EXCEPT !.max = 0, !.name = ""]] ELSE e
Same(x, y) == Norm(x) = Norm(y)

Init == pid \in 1..Len(Pairs) /\ l = 1 /\ diff = 0

Step == /\ diff = 0 /\ l <= MinLen
        /\ IF Same(A[l], B[l]) THEN l' = l + 1 /\ diff' = 0 ELSE diff' = l /\ l' = l
        /\ UNCHANGED pid

Finish == /\ (diff # 0 \/ l = MinLen + 1) /\ l <= MinLen + 1
          /\ PrintT(<<"PAIR", ToJson([pid |-> pid, name |-> Pairs[pid].name, kind |-> Pairs[pid].kind,
                                       diff |-> diff, lena |-> Len(A), lenb |-> Len(B),
                                       what |-> IF diff = 0 THEN "" ELSE A[diff].e])>>)
          /\ l' = MinLen + 2 /\ UNCHANGED <<pid, diff>>

Next == Step \/ Finish
Spec == Init /\ [][Next]_vars
=============================================================================
