------------------------------- MODULE Sprout -------------------------------
(***************************************************************************)
(* C10 (filters), the function part of C08 and the filter part of C13:     *)
(* the sprout filters as relations on abstract candidate sets.             *)
(*                                                                         *)
(* Code: pyhms/sprout/sprout_filters.py                                    *)
(*   FarEnough 33-53, NBC_FarEnough 56-96, DemeLimit 133-146,              *)
(*   LevelLimit 149-171, SkipSameSprout 174-195;                           *)
(*   sprout_mechanisms.py:30-58 (deme-level chain, then tree-level chain). *)
(*                                                                         *)
(* A candidate is [id, par, rank, pos]: rank = goodness in the problem's   *)
(* own direction (0 best; equal rank = equal fitness), pos = lattice point.*)
(* Where the property leaves a choice (ties at a cut-off) a filter is a    *)
(* RELATION: Outs_X(...) is the set of acceptable outputs.  TLC explores   *)
(* every composition order of the filters as a state machine and checks    *)
(* the laws; the tables list, per case, the acceptable outputs and are     *)
(* replayed on the real filter objects with synthetic trees.               *)
(***************************************************************************)
EXTENDS Integers, Sequences, FiniteSets, TLC, Json, IOUtils, SequencesExt, FiniteSetsExt

CONSTANTS MaxCand,     \* candidates per parent
          MaxRank      \* ranks 0..MaxRank

Abs(x) == IF x < 0 THEN -x ELSE x
Max2(a, b) == IF a > b THEN a ELSE b
Min2(a, b) == IF a < b THEN a ELSE b

\* lattice points used for geometry (3-4-5 triangles: distances 3, 4, 5, 10 occur exactly)
Points == {<<0, 0>>, <<3, 4>>, <<6, 8>>, <<3, 0>>, <<0, 4>>}
Dist2(p, q)   == (p[1] - q[1]) * (p[1] - q[1]) + (p[2] - q[2]) * (p[2] - q[2])
Dist1(p, q)   == Abs(p[1] - q[1]) + Abs(p[2] - q[2])
DistInf(p, q) == Max2(Abs(p[1] - q[1]), Abs(p[2] - q[2]))
\* strictly farther than thr in norm ord (ord 2 decided on squares: exact in integers)
\* ord codes: 1, 2, 3 = infinity, 4 = the 3-norm, 5 = the 4-norm (decided on cubes / fourth powers: exact in integers)
Pow3(x) == x * x * x
Pow4(x) == x * x * x * x
Dist3c(p, q) == Pow3(Abs(p[1] - q[1])) + Pow3(Abs(p[2] - q[2]))
Dist4q(p, q) == Pow4(Abs(p[1] - q[1])) + Pow4(Abs(p[2] - q[2]))
Farther(p, q, thr, ord) == CASE ord = 1 -> Dist1(p, q) > thr
                             [] ord = 2 -> Dist2(p, q) > thr * thr
                             [] ord = 4 -> Dist3c(p, q) > Pow3(thr)
                             [] ord = 5 -> Dist4q(p, q) > Pow4(thr)
                             [] OTHER   -> DistInf(p, q) > thr
\* the p-th root of the implementation is inexact: rows in which a distance equals the threshold exactly are not compared
OnThreshold(p, q, thr, ord) == (ord = 4 /\ Dist3c(p, q) = Pow3(thr)) \/ (ord = 5 /\ Dist4q(p, q) = Pow4(thr))

-----------------------------------------------------------------------------
(* The filters.  C: set of candidate records still alive.                  *)
ByPar(C, p) == {c \in C : c.par = p}
Better(a, b) == a.rank < b.rank

\* DemeLimit(k): per parent keep exactly min(k, available); no dropped candidate strictly better than a kept one
Outs_DemeLimit(C, k) ==
    { K \in SUBSET C :
        \A p \in {c.par : c \in C} :
            /\ Cardinality(ByPar(K, p)) = Min2(k, Cardinality(ByPar(C, p)))
            /\ \A d \in ByPar(C, p) \ K : \A x \in ByPar(K, p) : ~Better(d, x) }

\* LevelLimit(L): per target level keep at most the free slots; never drop a strictly better candidate than a
\* kept one; fill exactly the free slots when the pooled ranks are distinct; keep everything when it fits.
\* lvlOf: parent -> its level; act: target level -> number of active demes there
Free(L, act, t) == Max2(0, L - act[t])
Outs_LevelLimit(C, L, lvlOf, act, targets) ==
    { K \in SUBSET C :
        \A t \in targets :
            LET pool == {c \in C : lvlOf[c.par] + 1 = t}
                kept == {c \in K : lvlOf[c.par] + 1 = t}
                free == Free(L, act, t)
                distinct == \A a, b \in pool : a # b => a.rank # b.rank
            IN /\ Cardinality(kept) <= free
               /\ \A d \in pool \ kept : \A x \in kept : ~Better(d, x)
               /\ (act[t] + Cardinality(pool) <= L) => kept = pool
               /\ distinct => Cardinality(kept) = Min2(Cardinality(pool), free) }

\* SkipSameSprout: seeds: set of [par, pos] of existing children of the parents' level
\* must reject: equal to a seed of a child of the same parent; must keep: different from every seed of the level
Outs_SkipSame(C, seeds) ==
    { K \in SUBSET C :
        /\ \A c \in C : (\E s \in seeds : s.par = c.par /\ s.pos = c.pos) => c \notin K
        /\ \A c \in C : (\A s \in seeds : s.pos # c.pos) => c \in K }

\* FarEnough(thr, ord): sibs: set of [pos (centroid), active] on the target level (one target level here)
Out_FarEnough(C, sibs, thr, ord) ==
    {c \in C : \A s \in sibs : s.active => Farther(c.pos, s.pos, thr, ord)}
\* NBC_FarEnough(factor, onlyActive): threshold factor * mean (mean: per parent feature)
Out_NBCFar(C, sibs, factor, mean, onlyActive) ==
    {c \in C : \A s \in sibs : (s.active \/ ~onlyActive) => Farther(c.pos, s.pos, factor * mean, 2)}

-----------------------------------------------------------------------------
(* Case spaces                                                              *)
Ranks == 0..MaxRank
RankSeqs(n) == UNION {[1..m -> Ranks] : m \in 0..n}

\* candidates of parent p from a rank sequence (ids unique per parent: p, index); positions all distinct dummies
CandsR(p, rs) == {[id |-> <<p, i>>, par |-> p, rank |-> rs[i], pos |-> <<100 + i, 0>>] : i \in DOMAIN rs}

\* family 1: DemeLimit on one parent
Fam_DemeLimit ==
    { [fam |-> "demelimit", k |-> k, cands |-> CandsR("A", rs)] : k \in 1..3, rs \in RankSeqs(MaxCand + 1) }

\* family 2: LevelLimit: parents root (level 0), A and B (level 1); level-1 census = A, B (+ extra);
\* level 2 census a2 active / i2 inactive existing demes
LvlOf == [p \in {"root", "A", "B"} |-> IF p = "root" THEN 0 ELSE 1]
Fam_LevelLimit ==
    { [fam |-> "levellimit", L |-> L, a1 |-> a1, a2 |-> a2, i2 |-> i2,
       cands |-> CandsR("root", rr) \cup CandsR("A", ra) \cup CandsR("B", rb)] :
        L \in 1..3, a1 \in {2, 3}, a2 \in 0..4, i2 \in {0, 1},
        rr \in RankSeqs(1), ra \in RankSeqs(MaxCand), rb \in RankSeqs(MaxCand) }
ActOf(c) == [t \in {1, 2} |-> IF t = 1 THEN c.a1 ELSE c.a2]

\* family 3: SkipSameSprout: parents A, B on level 1; candidate positions / seed positions from 3 points
P3 == {<<0, 0>>, <<3, 4>>, <<6, 8>>}
PosCands(p, ps) == {[id |-> <<p, q>>, par |-> p, rank |-> 0, pos |-> q] : q \in ps}
Fam_SkipSame ==
    { [fam |-> "skipsame", cands |-> PosCands("A", ca) \cup PosCands("B", cb),
       seeds |-> {[par |-> "A", pos |-> q] : q \in sa} \cup {[par |-> "B", pos |-> q] : q \in sb}] :
        ca \in SUBSET P3, cb \in SUBSET {<<3, 4>>}, sa \in SUBSET {<<0, 0>>, <<3, 4>>}, sb \in SUBSET {<<3, 4>>, <<6, 8>>} }

\* family 3b: SkipSameSprout with parents on two different levels: root (level 0, children A and B sprouted from
\* seedA / seedB) and A (level 1, children on level 2).  A candidate is compared with the seeds of its own target level.
LvlOfS(p) == IF p = "root" THEN 0 ELSE 1
Outs_SkipSameL(C, seeds) ==
    { K \in SUBSET C :
        /\ \A c \in C : (\E s \in seeds : s.par = c.par /\ s.pos = c.pos) => c \notin K
        /\ \A c \in C : (\A s \in seeds : LvlOfS(s.par) = LvlOfS(c.par) => s.pos # c.pos) => c \in K }
Fam_SkipSame3 ==
    { [fam |-> "skipsame3", seedA |-> pa, seedB |-> <<6, 8>>,
       cands |-> PosCands("root", cr) \cup PosCands("A", ca),
       seeds |-> {[par |-> "root", pos |-> pa], [par |-> "root", pos |-> <<6, 8>>]}
                 \cup {[par |-> "A", pos |-> q] : q \in sa} \cup {[par |-> "B", pos |-> q] : q \in sb}] :
        pa \in {<<0, 0>>, <<3, 4>>}, cr \in SUBSET P3, ca \in SUBSET P3,
        sa \in SUBSET {<<0, 0>>, <<3, 4>>}, sb \in SUBSET {<<3, 4>>} }

\* family 4: FarEnough / NBC_FarEnough: one parent, up to 2 candidates, up to 2 siblings
Sibs == {S \in SUBSET [pos : Points, active : BOOLEAN] : Cardinality(S) <= 2}
Fam_Far ==
    { [fam |-> "far", thr |-> thr, ord |-> ord, sibs |-> S, cands |-> PosCands("A", ps)] :
        thr \in {0, 3, 5, 9, 10}, ord \in {1, 2, 3, 4, 5}, S \in Sibs, ps \in {X \in SUBSET Points : Cardinality(X) \in 1..2} }
Fam_NBCFar ==
    { [fam |-> "nbcfar", factor |-> f, mean |-> m, only |-> o, sibs |-> S, cands |-> PosCands("A", ps)] :
        f \in {0, 1, 2}, m \in {0, 5}, o \in BOOLEAN, S \in Sibs, ps \in {X \in SUBSET Points : Cardinality(X) \in 1..2} }

Ids(C) == {c.id : c \in C}
Row_DemeLimit(c)  == [fam |-> c.fam, k |-> c.k, cands |-> SetToSeq(c.cands),
                      ok |-> SetToSeq({SetToSeq(Ids(K)) : K \in Outs_DemeLimit(c.cands, c.k)})]
Row_LevelLimit(c) == [fam |-> c.fam, L |-> c.L, a1 |-> c.a1, a2 |-> c.a2, i2 |-> c.i2, cands |-> SetToSeq(c.cands),
                      ok |-> SetToSeq({SetToSeq(Ids(K)) : K \in Outs_LevelLimit(c.cands, c.L, LvlOf, ActOf(c), {1, 2})})]
Row_SkipSame(c)   == [fam |-> c.fam, cands |-> SetToSeq(c.cands), seeds |-> SetToSeq(c.seeds),
                      ok |-> SetToSeq({SetToSeq(Ids(K)) : K \in Outs_SkipSame(c.cands, c.seeds)})]
Row_SkipSame3(c)  == [fam |-> c.fam, seedA |-> c.seedA, seedB |-> c.seedB, cands |-> SetToSeq(c.cands),
                      seeds |-> SetToSeq({x \in c.seeds : x.par # "root"}),
                      ok |-> SetToSeq({SetToSeq(Ids(K)) : K \in Outs_SkipSameL(c.cands, c.seeds)})]
Row_Far(c)        == [fam |-> c.fam, thr |-> c.thr, ord |-> c.ord, sibs |-> SetToSeq(c.sibs), cands |-> SetToSeq(c.cands),
                      onthr |-> \E x \in c.cands : \E sb \in c.sibs : OnThreshold(x.pos, sb.pos, c.thr, c.ord),
                      ok |-> <<SetToSeq(Ids(Out_FarEnough(c.cands, c.sibs, c.thr, c.ord)))>>]
Row_NBCFar(c)     == [fam |-> c.fam, factor |-> c.factor, mean |-> c.mean, only |-> c.only, sibs |-> SetToSeq(c.sibs),
                      cands |-> SetToSeq(c.cands),
                      ok |-> <<SetToSeq(Ids(Out_NBCFar(c.cands, c.sibs, c.factor, c.mean, c.only)))>>]

WriteTables ==
    /\ ndJsonSerialize(IOEnv.VERIF_OUT,
          SetToSeq({Row_DemeLimit(c) : c \in Fam_DemeLimit}) \o SetToSeq({Row_LevelLimit(c) : c \in Fam_LevelLimit})
          \o SetToSeq({Row_SkipSame(c) : c \in Fam_SkipSame}) \o SetToSeq({Row_SkipSame3(c) : c \in Fam_SkipSame3})
          \o SetToSeq({Row_Far(c) : c \in Fam_Far})
          \o SetToSeq({Row_NBCFar(c) : c \in Fam_NBCFar}))

-----------------------------------------------------------------------------
(* State machine: a mechanism applies its deme-level filters, then its     *)
(* tree-level filters, each in any order (all composition orders).         *)
(* Scene: parents A, B (level 1, both active) offer for level 2, which     *)
(* holds one existing child of A (seed and centroid at <<0,0>>).           *)
ChainPos == {<<0, 0>>, <<6, 8>>}
ChainCands(p) == UNION { {S \in SUBSET [id : {<<p, 1>>, <<p, 2>>}, par : {p}, rank : 0..1, pos : ChainPos] :
                            /\ Cardinality(S) = n
                            /\ \A a, b \in S : a # b => a.id # b.id /\ a.pos # b.pos} : n \in 0..2 }

VARIABLES C0, C, todoD, todoT, L, childActive, applied
vars == <<C0, C, todoD, todoT, L, childActive, applied>>

DemeFilters == {"demelimit1", "far5"}
TreeFilters == {"levellimit", "skipsame"}

Init == /\ C0 \in {X \cup Y : X \in ChainCands("A"), Y \in ChainCands("B")}
        /\ C = C0
        /\ todoD \in SUBSET DemeFilters
        /\ todoT \in SUBSET TreeFilters
        /\ L \in 1..2
        /\ childActive \in BOOLEAN
        /\ applied = <<>>

SibsNow == {[pos |-> <<0, 0>>, active |-> childActive]}
SeedsNow == {[par |-> "A", pos |-> <<0, 0>>]}
ActNow == [t \in {1, 2} |-> IF t = 1 THEN 2 ELSE IF childActive THEN 1 ELSE 0]
LvlAB == [p \in {"A", "B"} |-> 1]

OutsOf(f) == CASE f = "demelimit1" -> Outs_DemeLimit(C, 1)
               [] f = "far5"       -> {Out_FarEnough(C, SibsNow, 5, 2)}
               [] f = "levellimit" -> Outs_LevelLimit(C, L, LvlAB, ActNow, {2})
               [] f = "skipsame"   -> Outs_SkipSame(C, SeedsNow)

ApplyDeme == /\ todoD # {}
             /\ \E f \in todoD : \E K \in OutsOf(f) :
                  /\ C' = K /\ todoD' = todoD \ {f} /\ applied' = Append(applied, f)
             /\ UNCHANGED <<C0, todoT, L, childActive>>
ApplyTree == /\ todoD = {} /\ todoT # {}
             /\ \E f \in todoT : \E K \in OutsOf(f) :
                  /\ C' = K /\ todoT' = todoT \ {f} /\ applied' = Append(applied, f)
             /\ UNCHANGED <<C0, todoD, L, childActive>>
Next == ApplyDeme \/ ApplyTree
Spec == Init /\ [][Next]_vars

Has(f) == \E i \in DOMAIN applied : applied[i] = f
\* C10 "filters only ever remove candidates"
OnlyRemove == C \subseteq C0
StepOnlyRemoves == [][C' \subseteq C]_vars
\* C08: once the level limit was applied, whatever order the other filters come in, the round fits the free slots
RoundWithinFreeSlots == Has("levellimit") => Cardinality(C) <= Free(L, ActNow, 2)
\* C10 DemeLimit keeps at most k per parent; later filters cannot add
DemeLimitHolds == Has("demelimit1") => \A p \in {"A", "B"} : Cardinality(ByPar(C, p)) <= 1
\* C09 at the function level: after FarEnough nothing within the threshold of an active sibling survives
FarHolds == Has("far5") => \A c \in C : childActive => Farther(c.pos, <<0, 0>>, 5, 2)
\* C10 SkipSameSprout soundness survives later filters
SkipSameHolds == Has("skipsame") => \A c \in C : ~(c.par = "A" /\ c.pos = <<0, 0>>)
=============================================================================
