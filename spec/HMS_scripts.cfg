SPECIFICATION Spec
CONSTANTS
  Configs <- ScriptedConfigs
  MaxMeta = 3
  MaxDemes = 5
  MaxOffer = 2
  MaxLocal = 1
  AllowSelfStop = FALSE
  AllowManual = FALSE
  AllowVariants = FALSE
  ExactOffers = TRUE
  EmitScripts = TRUE
CONSTRAINT Bound
VIEW ViewSt
INVARIANT Emit
CHECK_DEADLOCK FALSE
