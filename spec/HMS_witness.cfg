SPECIFICATION Spec
CONSTANTS
  Configs <- QuickConfigs
  MaxMeta = 3
  MaxDemes = 5
  MaxOffer = 2
  MaxLocal = 2
  AllowSelfStop = TRUE
  AllowManual = FALSE
  AllowVariants = FALSE
  ExactOffers = FALSE
  EmitScripts = FALSE
CONSTRAINT Bound
VIEW ViewSt
INVARIANT Inv_C18_NoIdleMetaepoch
CHECK_DEADLOCK FALSE
