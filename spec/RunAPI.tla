------------------------------- MODULE RunAPI -------------------------------
(***************************************************************************)
(* Black-box view of DemeTree.run() / hms() with the library's objects     *)
(* UNWRAPPED: the stop conditions and the sprouting mechanism are the      *)
(* shipped objects themselves (or user classes derived from them), so that *)
(* behaviour which depends on their types is what a user would get.  Only  *)
(* the objective is instrumented, plus user-defined conditions that log    *)
(* their own consults (harness/runapi_build.py).                           *)
(*                                                                         *)
(* A run is a sequence of events                                           *)
(*    <<0, mc, lvl>>   the objective is called while the tree's metaepoch  *)
(*                     counter shows mc (-1: counter not observable)       *)
(*    <<1, mc, v>>     a user-defined global condition is consulted at     *)
(*                     counter mc and answers v (1 / 0)                    *)
(* and an end record (final counter, reported evaluation total, activity). *)
(* One TLC state per event; the clauses are sentences of C03 / C05, plus   *)
(* what the finished tree shows of C01 / C02 / C04 / C07 / C08.            *)
(***************************************************************************)
EXTENDS Integers, Sequences, FiniteSets, TLC, Json, IOUtils, SequencesExt

Runs == JsonDeserialize(IOEnv.VERIF_RUNS)

VARIABLES rid, i, calls, upto, prevUpto, curMc, firstTrue, viol
vars == <<rid, i, calls, upto, prevUpto, curMc, firstTrue, viol>>
\* calls      objective calls so far
\* curMc      highest counter value seen so far
\* upto       calls made while the counter was <= curMc   (= calls)
\* prevUpto   calls made while the counter was <  curMc
\* firstTrue  counter value at the first TRUE verdict of a logging condition (-1: none yet)

R  == Runs[rid]
Ev == R.events[i]
Unknown == -1

Init == rid \in 1..Len(Runs) /\ i = 1 /\ calls = 0 /\ upto = 0 /\ prevUpto = 0 /\ curMc = 0 /\ firstTrue = -1 /\ viol = {}

Step ==
    /\ i <= Len(R.events)
    /\ LET e == Ev  mc == e[2] IN
       /\ viol' = viol
            \* the counter never goes back and moves by whole metaepochs
            \cup (IF mc # Unknown /\ (mc < curMc \/ mc > curMc + 1) THEN {<<"C05_CounterMovesByOne", i>>} ELSE {})
            \* C05 "returns at the first metaepoch boundary where it does [hold]": a condition that has answered TRUE at
            \* counter k holds at the boundary that ends metaepoch k - nothing happens under a larger counter
            \cup (IF mc # Unknown /\ firstTrue # -1 /\ mc > firstTrue THEN {<<"C05_ReturnsAtFirstBoundary", i>>} ELSE {})
            \* C01: every point at which the objective is invoked lies inside the box
            \cup (IF e[1] = 0 /\ e[3] # 1 THEN {<<"C01_EvalInBox", i>>} ELSE {})
       /\ calls' = IF e[1] = 0 THEN calls + 1 ELSE calls
       /\ curMc' = IF mc # Unknown /\ mc > curMc THEN mc ELSE curMc
       /\ prevUpto' = IF mc # Unknown /\ mc > curMc THEN calls ELSE prevUpto
       /\ upto' = calls'
       /\ firstTrue' = IF e[1] = 1 /\ e[3] = 1 /\ firstTrue = -1 THEN mc ELSE firstTrue
    /\ i' = i + 1 /\ UNCHANGED rid

\* the run has returned
End ==
    /\ i = Len(R.events) + 1
    /\ LET f == R.final  g == R.gsc IN
       viol' = viol
         \cup (IF f.tev # calls /\ R.counted = 1 THEN {<<"C03_TotalEqualsCalls", f.tev>>} ELSE {})
         \cup (IF f.levsum # f.tev THEN {<<"C03_TreeEqualsSumOfDemes", f.levsum>>} ELSE {})
         \cup (IF g.kind = "MetaepochLimit" /\ f.mc # g.n THEN {<<"C05_CounterEqualsPerformed", f.mc>>} ELSE {})
         \cup (IF g.kind = "DontRun" /\ (f.mc # 0 \/ (R.rootinit # -1 /\ calls # R.rootinit)) THEN {<<"C05_CounterEqualsPerformed", f.mc>>} ELSE {})
         \* evaluation limits: the total reached the limit at the final boundary and not at the one before
         \cup (IF g.kind = "SingularEvalLimit" /\ R.observable = 1
                  /\ ~(calls >= g.n /\ (f.mc = 0 \/ (IF curMc = f.mc THEN prevUpto ELSE calls) < g.n))
               THEN {<<"C05_ReturnsAtFirstBoundary", f.mc>>} ELSE {})
         \cup (IF g.kind = "SingularEvalLimit" /\ R.observable = 0 /\ calls < g.n
               THEN {<<"C05_DoneImpliesGsc", f.mc>>} ELSE {})
         \* a logging user condition: the run ends at the boundary of the metaepoch in which it first answered TRUE, and it
         \* has answered TRUE (or the limit of its MetaepochLimit base was reached)
         \cup (IF g.kind = "UserLimitOrTarget" /\ firstTrue = -1 THEN {<<"C05_DoneImpliesGsc", f.mc>>} ELSE {})
         \cup (IF g.kind = "UserLimitOrTarget" /\ firstTrue # -1 /\ R.observable = 1 /\ f.mc # firstTrue
               THEN {<<"C05_ReturnsAtFirstBoundary", f.mc>>} ELSE {})
         \* the finished tree as a user sees it: well-formed (C07), level limit respected (C08), the reported best carries the
         \* true value of its genome (C02) and - without a local-search level - is the best value the objective ever returned (C04)
         \cup (IF f.struct # 1 THEN {<<"C07_Structure", f.mc>>} ELSE {})
         \cup (IF f.overlimit # 0 THEN {<<"C08_ActiveWithinLimit", f.mc>>} ELSE {})
         \cup (IF f.besttrue # 1 THEN {<<"C02_TrueFitness", f.mc>>} ELSE {})
         \cup (IF f.bestok # 1 THEN {<<"C04_BestEverObserved", f.mc>>} ELSE {})
         \cup (IF R.observable = 1 /\ f.mc < curMc THEN {<<"C05_CounterEqualsPerformed", f.mc>>} ELSE {})
    /\ i' = i + 1 /\ UNCHANGED <<rid, calls, upto, prevUpto, curMc, firstTrue>>

Finish == /\ i = Len(R.events) + 2
          /\ PrintT(<<"RUN", ToJson([rid |-> rid, name |-> R.name, n |-> Len(R.events), viol |-> SetToSeq(viol)])>>)
          /\ i' = i + 1 /\ UNCHANGED <<rid, calls, upto, prevUpto, curMc, firstTrue, viol>>

Next == Step \/ End \/ Finish
Spec == Init /\ [][Next]_vars
=============================================================================
