SPECIFICATION Spec
CONSTANTS
  Configs <- ManualConfigs
  MaxMeta = 4
  MaxDemes = 5
  MaxOffer = 2
  MaxLocal = 2
  AllowSelfStop = TRUE
  AllowManual = TRUE
  AllowVariants = FALSE
  ExactOffers = FALSE
  EmitScripts = FALSE
CONSTRAINT Bound
VIEW ViewSt
INVARIANT Inv_C07_Structure
INVARIANT Inv_C07_IdLaw
INVARIANT Inv_C08_ActiveWithinLimit
INVARIANT Inv_C05_WindDownAtMostOne
INVARIANT Inv_C06_SteppedExactlyOnce
INVARIANT Inv_C06_NewbornHasNotRun
INVARIANT Inv_C18_HibIff
INVARIANT Inv_C18_OffMeansNever
INVARIANT Inv_C18_AsleepMeansFrozen
INVARIANT Inv_C03_TotalIsSumOfLevels
INVARIANT Inv_C03_BudgetHard
INVARIANT Inv_C03_TotalEqualsCalls
INVARIANT Inv_C03_RequestsSplit
INVARIANT Inv_G_ClockNotAhead
INVARIANT Inv_G_ClockInSync
INVARIANT Inv_G_SinceSproutRawNonNeg
INVARIANT Inv_G_SinceSproutBounded
INVARIANT Inv_G_WoundDownOneStepLater
PROPERTY Act_C05_NoSproutAfterGsc
PROPERTY Act_C06_InactiveFrozen
PROPERTY Act_C06_StopCauses
PROPERTY Act_C08_RoundWithinFree
PROPERTY Act_C05_McMonotone
CHECK_DEADLOCK FALSE
