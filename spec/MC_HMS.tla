------------------------------- MODULE MC_HMS -------------------------------
(* Configuration sets for the design model (cfg files cannot hold records). *)
EXTENDS HMSModel

Lv(e, p, g, lsc, n) == [eng |-> e, pop |-> p, gens |-> g, lsc |-> lsc, lscn |-> n]
Cf(name, lv, limit, hib, gsc, n, w) ==
    [name |-> name, nlevels |-> Len(lv), levels |-> lv, limit |-> limit, hib |-> hib,
     gsc |-> gsc, gscn |-> n, gscw |-> w, localmethod |-> 0, budget |-> NoLimit]

\* --- scripted (free) stop conditions: every position at which the global condition can first turn true,
\*     every deme whose local condition fires in every metaepoch
ScriptedConfigs ==
    { Cf("A3h", <<Lv("SEA", 1, 2, "Scripted", 0), Lv("SEA", 1, 1, "Scripted", 0), Lv("CMA", 1, 2, "Scripted", 0)>>,
         2, 1, "Scripted", 0, <<1, 1, 1>>),
      Cf("A3n", <<Lv("SEA", 1, 2, "Scripted", 0), Lv("DE", 1, 1, "Scripted", 0), Lv("CMA", 1, 2, "Scripted", 0)>>,
         2, 0, "Scripted", 0, <<1, 1, 1>>),
      Cf("B2", <<Lv("DE", 1, 1, "Scripted", 0), Lv("LOCAL", 0, 1, "DontStop", 0)>>,
         2, 0, "Scripted", 0, <<1, 1>>),
      Cf("C3h", <<Lv("LHS", 1, 1, "Scripted", 0), Lv("SHADE", 1, 2, "Scripted", 0), Lv("LOCAL", 0, 1, "DontStop", 0)>>,
         1, 1, "Scripted", 0, <<1, 1, 1>>),
      Cf("D1", <<Lv("SOBOL", 1, 1, "Scripted", 0)>>, NoLimit, 0, "Scripted", 0, <<1>>),
      Cf("E2u", <<Lv("SEA", 1, 1, "DontStop", 0), Lv("CMA", 1, 1, "Scripted", 0)>>,
         NoLimit, 1, "Scripted", 0, <<1, 1>>) }

\* --- every shipped stop condition with all small parameters
Two(gsc, n, w, lsc0, n0, lsc1, n1, hib) ==
    Cf("S:" \o gsc \o ToString(n) \o lsc0 \o ToString(n0) \o lsc1 \o ToString(n1) \o ToString(hib),
       <<Lv("SEA", 1, 2, lsc0, n0), Lv("CMA", 1, 2, lsc1, n1)>>, 2, hib, gsc, n, w)
Three(gsc, n, w, hib) ==
    Cf("T:" \o gsc \o ToString(n) \o ToString(hib),
       <<Lv("DE", 1, 1, "AllChildrenStopped", 0), Lv("SEA", 1, 2, "MetaepochLimit", 2), Lv("LOCAL", 0, 1, "DontStop", 0)>>,
       2, hib, gsc, n, w)
ShippedConfigs ==
    {Two("MetaepochLimit", n, <<1, 1>>, "DontStop", 0, "MetaepochLimit", 1, h) : n \in 0..3, h \in {0, 1}}
    \cup {Two("SingularEvalLimit", n, <<1, 1>>, "DontStop", 0, "DontStop", 0, 0) : n \in 1..7}
    \cup {Two("WeightedEvalLimit", n, w, "DontStop", 0, "MetaepochLimit", 2, 1) : n \in 1..5, w \in {<<1, 0>>, <<1, 2>>, <<0, 1>>}}
    \cup {Two("RootStopped", 0, <<1, 1>>, "MetaepochLimit", n, "DontStop", 0, 0) : n \in 1..3}
    \cup {Two("RootStopped", 0, <<1, 1>>, "AllChildrenStopped", 0, "MetaepochLimit", 1, h) : h \in {0, 1}}
    \cup {Two("AllStopped", 0, <<1, 1>>, "MetaepochLimit", n, "MetaepochLimit", 1, 0) : n \in 1..3}
    \cup {Two("NoActiveNonroot", n, <<1, 1>>, "DontStop", 0, "MetaepochLimit", 1, 0) : n \in 0..2}
    \cup {Two("DontRun", 0, <<1, 1>>, "DontStop", 0, "DontStop", 0, 0)}
    \cup {Two("MetaepochLimit", 3, <<1, 1>>, "DontRun", 0, "DontStop", 0, 0)}
    \cup {Three("MetaepochLimit", n, <<1, 1, 1>>, h) : n \in 2..4, h \in {0, 1}}
    \cup {Three("SingularEvalLimit", n, <<1, 1, 1>>, 1) : n \in 3..9}
    \cup {Three("AllStopped", 0, <<1, 1, 1>>, 0), Three("NoActiveNonroot", 1, <<1, 1, 1>>, 0)}

\* --- NBCGeneratorWithLocalMethod: finished demes of the last-but-one level hand their best to a local search
LocalMethodConfigs ==
    { [Cf("LM3" \o ToString(h) \o ToString(n),
          <<Lv("SEA", 1, 1, "DontStop", 0), Lv("DE", 1, 1, "MetaepochLimit", n), Lv("LOCAL", 0, 1, "DontStop", 0)>>,
          2, h, "MetaepochLimit", 4, <<1, 1, 1>>) EXCEPT !.localmethod = 1] : h \in {0, 1}, n \in {1, 2} }

\* --- evaluation budgets as minimize(maxfun=N) sets them up (hms.py:59-64): one cutoff wrapper shared by all
\*     levels and SingularProblemEvalLimitReached(N); populations of 2 so that a budget can end inside a batch
BudgetConfigs ==
    { [Cf("BG" \o ToString(n) \o ToString(h),
          <<Lv("SEA", 2, 2, "DontStop", 0), Lv("CMA", 2, 2, "Scripted", 0)>>,
          2, h, "SingularEvalLimit", n, <<1, 1>>) EXCEPT !.budget = n] : n \in 1..9, h \in {0, 1} }
    \cup { [Cf("BM" \o ToString(n),
          <<Lv("DE", 2, 1, "DontStop", 0), Lv("LOCAL", 0, 1, "DontStop", 0)>>,
          2, 0, "MetaepochLimit", 3, <<1, 1>>) EXCEPT !.budget = n] : n \in 0..6 }

\* --- liveness: configurations whose global condition must hold eventually
LiveConfigs ==
    {Two("MetaepochLimit", n, <<1, 1>>, "DontStop", 0, "MetaepochLimit", 1, h) : n \in 0..3, h \in {0, 1}}
    \cup {Three("MetaepochLimit", n, <<1, 1, 1>>, h) : n \in 2..3, h \in {0, 1}}
    \cup {Two("MetaepochLimit", 3, <<1, 1>>, "DontRun", 0, "DontStop", 0, 0)}
    \* conditions on the demes' activity: every deme stops after finitely many of its own metaepochs
    \cup {Two("AllStopped", 0, <<1, 1>>, "MetaepochLimit", n, "MetaepochLimit", 1, 0) : n \in 1..3}
    \cup {Two("RootStopped", 0, <<1, 1>>, "MetaepochLimit", n, "DontStop", 0, 0) : n \in 1..3}
    \* (not Three("AllStopped"): its root stops only when all its children have - it may sprout for ever, the state space is infinite)

\* --- caller-driven stepping: scripted conditions (the global one latches) and the monotone shipped ones
ManualConfigs ==
    ScriptedConfigs
    \cup {Two("MetaepochLimit", n, <<1, 1>>, "DontStop", 0, "MetaepochLimit", 1, h) : n \in 0..2, h \in {0, 1}}
    \cup {Two("SingularEvalLimit", n, <<1, 1>>, "DontStop", 0, "DontStop", 0, 0) : n \in {2, 5}}
    \cup {Three("MetaepochLimit", 2, <<1, 1, 1>>, h) : h \in {0, 1}}

QuickConfigs == ScriptedConfigs \cup ShippedConfigs \cup LocalMethodConfigs \cup BudgetConfigs
=============================================================================
