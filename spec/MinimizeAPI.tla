----------------------------- MODULE MinimizeAPI -----------------------------
(***************************************************************************)
(* Black-box view of pyhms.minimize(fun, bounds, maxfun, maxiter, seed)    *)
(* (pyhms/hms.py:45-89): the calls it makes to fun and what it returns.    *)
(*                                                                         *)
(*   Call(c)    one invocation of fun; enabled only while the budget       *)
(*              allows it (C03: maxfun is a hard limit)                    *)
(*   Return(r)  r.nfev = number of calls (C03), r.fun = best value ever    *)
(*              returned by fun (C04), r.x inside the box (C01) with       *)
(*              fun(x) = r.fun (C02), r.nit = maxiter when the run is      *)
(*              limited by metaepochs (C05)                                *)
(* A group is a list of runs of one (objective, box, seed): runs with      *)
(* increasing maxfun must replay the same calls as a prefix and never      *)
(* return a worse result (C04); runs with equal arguments must be          *)
(* identical (C14).  Calls are <<genome id, goodness rank, inbox>> with    *)
(* ids / ranks assigned group-wide by the recorder.                        *)
(***************************************************************************)
EXTENDS Integers, Sequences, FiniteSets, TLC, Json, IOUtils, SequencesExt, FiniteSetsExt

Groups == JsonDeserialize(IOEnv.VERIF_GROUPS)

VARIABLES gid, ri, n, best, viol
vars == <<gid, ri, n, best, viol>>

G == Groups[gid]
Run == G.runs[ri]
NoBudget == -1

Init == gid \in 1..Len(Groups) /\ ri = 1 /\ n = 0 /\ best = -1 /\ viol = {}

Budget(r) == r.maxfun
CallEnabled(r, k) == Budget(r) = NoBudget \/ k < Budget(r)

\* one call of fun
Call == /\ ri <= Len(G.runs) /\ n < Len(Run.calls)
        /\ LET c == Run.calls[n + 1] IN
           /\ viol' = viol \cup (IF CallEnabled(Run, n) THEN {} ELSE {<<"C03_BudgetHard", ri, n + 1>>})
                            \cup (IF c[3] = 1 THEN {} ELSE {<<"C01_EvalInBox", ri, n + 1>>})
           /\ best' = IF best = -1 \/ c[2] < best THEN c[2] ELSE best
        /\ n' = n + 1 /\ UNCHANGED <<gid, ri>>

Pair(c) == <<c[1], c[2]>>
IsPrefixOf(a, b) == Len(a) <= Len(b) /\ \A i \in DOMAIN a : Pair(a[i]) = Pair(b[i])

\* the run returns
Return ==
    /\ ri <= Len(G.runs) /\ n = Len(Run.calls)
    /\ LET r == Run.ret
           earlier == {j \in 1..(ri - 1) : TRUE}
           prefixViol == {<<"C04_BudgetPrefix", ri, j>> : j \in {x \in earlier :
                              /\ G.runs[x].maxfun # NoBudget /\ Run.maxfun # NoBudget /\ G.runs[x].maxfun < Run.maxfun
                              /\ ~(IsPrefixOf(G.runs[x].calls, Run.calls) /\ r.frank <= G.runs[x].ret.frank)}}
           repeatViol == {<<"C14_MinimizeRepeat", ri, j>> : j \in {x \in earlier :
                              /\ G.runs[x].maxfun = Run.maxfun /\ G.runs[x].maxiter = Run.maxiter
                              /\ ~(G.runs[x].calls = Run.calls /\ G.runs[x].ret = r)}}
       IN viol' = viol
            \cup (IF r.nfev = n THEN {} ELSE {<<"C03_NfevEqualsCalls", ri, r.nfev>>})
            \cup (IF n = 0 \/ r.frank = best THEN {} ELSE {<<"C04_FunIsMinOfCalls", ri, r.frank>>})
            \cup (IF r.xin = 1 THEN {} ELSE {<<"C01_ResultInBox", ri, 0>>})
            \cup (IF r.xtru = 1 THEN {} ELSE {<<"C02_ResultTrueFitness", ri, 0>>})
            \cup (IF Run.maxfun = NoBudget /\ Run.maxiter # NoBudget /\ r.nit # Run.maxiter
                  THEN {<<"C05_NitEqualsMaxiter", ri, r.nit>>} ELSE {})
            \cup prefixViol \cup repeatViol
    /\ ri' = ri + 1 /\ n' = 0 /\ best' = -1 /\ UNCHANGED gid

Finish == /\ ri = Len(G.runs) + 1
          /\ PrintT(<<"GROUP", ToJson([gid |-> gid, name |-> G.name, runs |-> Len(G.runs), viol |-> SetToSeq(viol)])>>)
          /\ ri' = ri + 1 /\ UNCHANGED <<gid, n, best, viol>>

Next == Call \/ Return \/ Finish
Spec == Init /\ [][Next]_vars
=============================================================================
