SPECIFICATION Spec
CONSTANTS
  MaxCand = 2
  MaxRank = 3
INVARIANT OnlyRemove
INVARIANT RoundWithinFreeSlots
INVARIANT DemeLimitHolds
INVARIANT FarHolds
INVARIANT SkipSameHolds
PROPERTY StepOnlyRemoves
POSTCONDITION WriteTables
CHECK_DEADLOCK FALSE
