SPECIFICATION Spec
CONSTANTS
  MaxCand = 3
  MaxRank = 2
INVARIANT OnlyRemove
INVARIANT RoundWithinFreeSlots
INVARIANT DemeLimitHolds
INVARIANT FarHolds
INVARIANT SkipSameHolds
PROPERTY StepOnlyRemoves
POSTCONDITION WriteTables
CHECK_DEADLOCK FALSE
