-------------------------------- MODULE R5S --------------------------------
(***************************************************************************)
(* R5S selection (pyhms/utils/r5s.py) transcribed for populations on a 1-D *)
(* lattice with pairwise distinct goodness ranks: used by C13 (same        *)
(* selection on (f, maximize) and (-f, minimize)) and C20 (r5s_solutions). *)
(* pop: sequence of positions, best first.  Distances are integers; the    *)
(* weighted sums sum_k d(i,i+k)/2^k are scaled by 2^Len(pop).              *)
(***************************************************************************)
EXTENDS Integers, Sequences, FiniteSets, TLC, Json, IOUtils, SequencesExt, FiniteSetsExt

CONSTANTS MaxPos, Size, TopK

Abs(x) == IF x < 0 THEN -x ELSE x
RECURSIVE Pow2(_)
Pow2(n) == IF n = 0 THEN 1 ELSE 2 * Pow2(n - 1)
D(s, i, j) == Abs(s[i] - s[j])
N(s) == Len(s)
Nearest(s, i)       == Min({D(s, i, j) : j \in DOMAIN s \ {i}})
NearestBetter(s, i) == IF i = 1 THEN 0 ELSE Min({D(s, i, j) : j \in 1..(i - 1)})
\* 2^N * sum_{k>=1} d(i, i+k) / 2^k
WeightedWorse(s, i) == FoldSet(LAMBDA k, acc : acc + D(s, i, i + k) * Pow2(N(s) - k), 0, 1..(N(s) - i))
Interesting(s) == SelectSeq([i \in DOMAIN s |-> i], LAMBDA i : Nearest(s, i) # NearestBetter(s, i))

Select(s) ==
    LET I == Interesting(s)
        W == [k \in DOMAIN I |-> WeightedWorse(s, I[k])]
        head == SubSeq(I, 1, IF Len(I) < TopK THEN Len(I) ELSE TopK)
        \* idx from the last interesting point down to position TopK+1 (1-based)
        extra == SelectSeq(Reverse([k \in 1..Len(I) |-> k]),
                           LAMBDA k : k > TopK /\ \E j \in 1..(k - 1) : W[j] > W[k])
    IN [k \in 1..(Len(head) + Len(extra)) |-> IF k <= Len(head) THEN s[head[k]] ELSE s[I[extra[k - Len(head)]]]]

Pops == { s \in [1..Size -> 0..MaxPos] : \A a, b \in 1..Size : a # b => s[a] # s[b] }

VARIABLES s
Init == s \in Pops
Next == UNCHANGED s
Spec == Init /\ [][Next]_s

\* the best individual is always selected first
BestFirst == Select(s)[1] = s[1]
NoDuplicates == \A a, b \in DOMAIN Select(s) : a # b => Select(s)[a] # Select(s)[b]
SubsetOfInput == \A a \in DOMAIN Select(s) : \E i \in DOMAIN s : s[i] = Select(s)[a]

WriteTable == ndJsonSerialize(IOEnv.VERIF_OUT, SetToSeq({[pop |-> p, expect |-> Select(p)] : p \in Pops}))
=============================================================================
