----------------------------- MODULE ShadeInd -----------------------------
(***************************************************************************)
(* Growth, design argument for UNBOUNDED memory size H and population size *)
(* N (Apalache): the success-history memory of SHADE (Shade.tla) with the  *)
(* ring abstracted to counters - k next cell, w cells written so far,      *)
(* q completed laps.  IndInv is inductive, so for every H >= 1, N >= 1 and  *)
(* every sequence of success counts: the index stays inside the ring, the  *)
(* archive never exceeds H, and the writes are spread round-robin          *)
(* (w = q * H + k: cells before k have been written q + 1 times, the       *)
(* others q times).                                                        *)
(*   apalache-mc check --cinit=CInit --init=Init --inv=IndInv --length=0   *)
(*   apalache-mc check --cinit=CInit --init=IndInit --inv=IndInv --length=1*)
(***************************************************************************)
EXTENDS Integers

CONSTANTS
    \* @type: Int;
    H,
    \* @type: Int;
    N

VARIABLES
    \* @type: Int;
    k,
    \* @type: Int;
    arch,
    \* @type: Int;
    w,
    \* @type: Int;
    q

CInit == H \in Int /\ N \in Int /\ H >= 1 /\ N >= 1

Init == k = 0 /\ arch = 0 /\ w = 0 /\ q = 0

Generation == \E s \in Int :
    /\ s >= 0 /\ s <= N
    /\ IF s = 0
       THEN UNCHANGED <<k, arch, w, q>>
       ELSE /\ arch' = IF arch + s > H THEN H ELSE arch + s
            /\ w' = w + 1
            /\ k' = IF k + 1 = H THEN 0 ELSE k + 1
            /\ q' = IF k + 1 = H THEN q + 1 ELSE q

Next == Generation

IndInv == /\ k >= 0 /\ k < H
          /\ arch >= 0 /\ arch <= H
          /\ q >= 0 /\ w >= 0
          /\ w = q * H + k

IndInit == k \in Int /\ arch \in Int /\ w \in Int /\ q \in Int /\ IndInv
=============================================================================
