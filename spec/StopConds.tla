------------------------------ MODULE StopConds ------------------------------
(***************************************************************************)
(* Beyond the listed properties: the shipped stop conditions whose verdict *)
(* depends on numbers, as functions of an abstract tree / deme, in exact   *)
(* integer arithmetic.                                                     *)
(*   FitnessSteadiness(dev, n)        stop_conditions/lsc.py:16-33         *)
(*   FitnessEvalLimitReached(N, w)    stop_conditions/gsc.py:38-92         *)
(*   NoActiveNonrootDemes(k)          stop_conditions/gsc.py:124-148       *)
(*   AllChildrenStopped               stop_conditions/lsc.py:39-48         *)
(* (HMS.tla carries the last three inside the control-plane model; here    *)
(* every small input is enumerated and replayed on the real classes.)      *)
(***************************************************************************)
EXTENDS Integers, Sequences, FiniteSets, TLC, Json, IOUtils, SequencesExt, FiniteSetsExt

CONSTANTS MaxMe,      \* metaepochs of the deme history (FitnessSteadiness)
          MaxFit      \* fitness values 0..MaxFit

SumSeq(q) == FoldSeq(LAMBDA x, acc : acc + x, 0, q)
MinSeq(q) == Min({q[i] : i \in DOMAIN q})

-----------------------------------------------------------------------------
(* FitnessSteadiness.  hist: sequence of metaepochs (hist[1] = the initial  *)
(* population), each a sequence of generations, each a sequence of fitness *)
(* values.  With all generations of size 1 and 1..2 generations per        *)
(* metaepoch the metaepoch averages are A/2 for integers A.                *)
(*   "true iff n <= metaepoch count and mean(avg of the last n metaepochs) *)
(*    - min(avg ...) <= dev", dev = p/q                                    *)
Fits     == 0..MaxFit
Gens     == [1..1 -> Fits] \cup [1..2 -> Fits]            \* a metaepoch: its generations' (single) fitness values
Hists    == UNION {[1..(m + 1) -> Gens] : m \in 1..MaxMe}
A2(me)   == IF Len(me) = 1 THEN 2 * me[1] ELSE me[1] + me[2]      \* twice the metaepoch average
Steady(hist, n, p, q) ==
    LET m == Len(hist) - 1 IN
    IF n > m THEN FALSE
    ELSE LET last == [i \in 1..n |-> A2(hist[Len(hist) - n + i])]
         IN q * (SumSeq(last) - n * MinSeq(last)) <= 2 * n * p

Shift(hist, t) == [i \in DOMAIN hist |-> [j \in DOMAIN hist[i] |-> hist[i][j] + t]]
Scale(hist, c) == [i \in DOMAIN hist |-> [j \in DOMAIN hist[i] |-> hist[i][j] * c]]
Ns   == 1..(MaxMe + 1)
Devs == {<<0, 1>>, <<1, 2>>, <<1, 1>>}

-----------------------------------------------------------------------------
(* FitnessEvalLimitReached: levels 1..3, per-level evaluation totals        *)
Strategies == {"equal", "root", "w"}
Weights(s, nl, w) == IF s = "root" THEN [l \in 1..nl |-> IF l = 1 THEN 1 ELSE 0]
                     ELSE IF s = "equal" THEN [l \in 1..nl |-> 1] ELSE w
Weighted(ev, wv) == FoldSet(LAMBDA l, acc : acc + wv[l] * ev[l], 0, DOMAIN ev)
EvalLimit(ev, s, w, N) == Weighted(ev, Weights(s, Len(ev), w)) >= N

-----------------------------------------------------------------------------
(* NoActiveNonrootDemes(k) on a 2-level tree: children [active, startedAt, me], tree metaepoch mc *)
NoActive(kids, mc, k) == kids # <<>> /\ \A i \in DOMAIN kids : ~kids[i][1] /\ mc > kids[i][2] + kids[i][3] + k
AllKidsStopped(kids)  == kids # <<>> /\ \A i \in DOMAIN kids : ~kids[i][1]

-----------------------------------------------------------------------------
VARIABLES hist
Init == hist \in Hists
Next == UNCHANGED hist
Spec == Init /\ [][Next]_hist

\* laws of the definition
ShiftInvariant == \A n \in Ns, d \in Devs : Steady(Shift(hist, 3), n, d[1], d[2]) = Steady(hist, n, d[1], d[2])
ScaleCovariant == \A n \in Ns, d \in Devs : Steady(Scale(hist, 2), n, 2 * d[1], d[2]) = Steady(hist, n, d[1], d[2])
DevMonotone    == \A n \in Ns : Steady(hist, n, 0, 1) => Steady(hist, n, 1, 2) /\ (Steady(hist, n, 1, 2) => Steady(hist, n, 1, 1))
NeverBeforeN   == \A n \in Ns, d \in Devs : n > Len(hist) - 1 => ~Steady(hist, n, d[1], d[2])
ConstantIsSteady == (\A i \in DOMAIN hist : \A j \in DOMAIN hist[i] : hist[i][j] = hist[1][1]) =>
                       \A n \in 1..(Len(hist) - 1) : Steady(hist, n, 0, 1)

RowS(h, n, d) == [fam |-> "steady", hist |-> h, n |-> n, p |-> d[1], q |-> d[2], v |-> Steady(h, n, d[1], d[2])]
EvVecs == UNION {[1..nl -> 0..2] : nl \in 1..3}
RowE(ev, s, w, N) == [fam |-> "evals", ev |-> ev, s |-> s, w |-> w, lim |-> N, v |-> EvalLimit(ev, s, w, N)]
KidSets == UNION {[1..m -> {<<a, sa, me>> : a \in BOOLEAN, sa \in 1..2, me \in 0..1}] : m \in 0..2}
RowN(kids, mc, k) == [fam |-> "nonroot", kids |-> kids, mc |-> mc, k |-> k, v |-> NoActive(kids, mc, k),
                      allstopped |-> AllKidsStopped(kids)]
WriteTable ==
    ndJsonSerialize(IOEnv.VERIF_OUT,
        SetToSeq({RowS(h, n, d) : h \in Hists, n \in Ns, d \in Devs})
        \o SetToSeq({RowE(ev, s, [l \in DOMAIN ev |-> IF l = 1 THEN 1 ELSE l - 1], N) : ev \in EvVecs, s \in Strategies, N \in 0..5})
        \o SetToSeq({RowE(ev, "w", [l \in DOMAIN ev |-> IF l = 2 THEN 0 ELSE 2], N) : ev \in EvVecs, N \in 0..5})
        \o SetToSeq({RowN(kids, mc, k) : kids \in KidSets, mc \in 2..4, k \in 0..1}))
=============================================================================
