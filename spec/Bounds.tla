------------------------------- MODULE Bounds -------------------------------
(***************************************************************************)
(* C17 (and the repair step behind C01): bound repair in exact arithmetic. *)
(*                                                                         *)
(* Code: pyhms/demes/single_pop_eas/common.py:13-34 apply_bounds.          *)
(*                                                                         *)
(* A coordinate value is a pair <<k, d>>: k lattice units plus d           *)
(* infinitesimals (d = -1 / +1 is "one ulp below / above the lattice       *)
(* point").  Boxes are lo < hi in lattice units.  The module gives         *)
(*   (1) the reference definition of clip / reflect / toroidal,            *)
(*   (2) the laws the property states, checked by TLC on every case,       *)
(*   (3) the complete case table (input, expected) written for the replay  *)
(*       harness, which concretises lattice values to floats.              *)
(***************************************************************************)
EXTENDS Integers, Sequences, FiniteSets, TLC, Json, IOUtils, SequencesExt

CONSTANTS Los, His,   \* candidate lower / upper bounds (lattice units)
          Span        \* inputs range Span whole ranges beyond either face

\* constant sets for the cfg files (a cfg cannot contain negative literals)
QLos == {-2, -1, 0, 1}
QHis == {1, 2, 3}
TLos == {-5, -2, -1, 0, 1, 3}
THis == {-3, 1, 2, 3, 5, 7}

Methods == {"clip", "reflect", "toroidal"}

Lt(a, b)  == a[1] < b[1] \/ (a[1] = b[1] /\ a[2] < b[2])
Le(a, b)  == a = b \/ Lt(a, b)
Add(a, b) == <<a[1] + b[1], a[2] + b[2]>>
Sub(a, b) == <<a[1] - b[1], a[2] - b[2]>>
Pt(k)    == <<k, 0>>

InBox(v, lo, hi) == Le(Pt(lo), v) /\ Le(v, Pt(hi))

\* floor(v / R) and v mod R for v = <<n, d>>, R a positive integer
FloorDiv(v, R) == IF v[2] < 0 /\ v[1] % R = 0 THEN (v[1] \div R) - 1 ELSE v[1] \div R
Mod(v, R)      == Sub(v, Pt(R * FloorDiv(v, R)))

Clip(x, lo, hi) == IF Lt(x, Pt(lo)) THEN Pt(lo) ELSE IF Lt(Pt(hi), x) THEN Pt(hi) ELSE x

Reflect(x, lo, hi) ==
    LET R == hi - lo
        v == Sub(x, Pt(lo))
        f == FloorDiv(v, R)
        m == Mod(v, R)
    IN Add(Pt(lo), IF f % 2 = 1 THEN Sub(Pt(R), m) ELSE m)

\* a point of the closed box stays where it is; anything else wraps into [lo, hi)
Toroidal(x, lo, hi) ==
    IF InBox(x, lo, hi) THEN x ELSE Add(Pt(lo), Mod(Sub(x, Pt(lo)), hi - lo))

Repair(m, x, lo, hi) == CASE m = "clip" -> Clip(x, lo, hi)
                          [] m = "reflect" -> Reflect(x, lo, hi)
                          [] m = "toroidal" -> Toroidal(x, lo, hi)

Cases == { [m |-> m, lo |-> lo, hi |-> hi, x |-> <<k, d>>] :
             m \in Methods, lo \in Los, hi \in His, k \in -60..60, d \in {-1, 0, 1} }

Valid(c) == /\ c.lo < c.hi
            /\ c.x[1] >= c.lo - Span * (c.hi - c.lo) - 1
            /\ c.x[1] <= c.hi + Span * (c.hi - c.lo) + 1

-----------------------------------------------------------------------------
VARIABLES c, r, phase
vars == <<c, r, phase>>

Init == /\ c \in {cc \in Cases : Valid(cc)}
        /\ r = <<0, 0>>
        /\ phase = "in"

Compute == /\ phase = "in"
           /\ r' = Repair(c.m, c.x, c.lo, c.hi)
           /\ phase' = "out"
           /\ UNCHANGED c

Spec == Init /\ [][Compute]_vars

-----------------------------------------------------------------------------
(* The laws of the property, evaluated on every computed case.             *)
Done == phase = "out"
R == c.hi - c.lo
NRange == -(Span + 2)..(Span + 2)

LandsInBox      == Done => InBox(r, c.lo, c.hi)
IdentityInside  == Done /\ InBox(c.x, c.lo, c.hi) => r = c.x
ClipNearestFace == Done /\ c.m = "clip" =>
                      /\ Lt(c.x, Pt(c.lo)) => r = Pt(c.lo)
                      /\ Lt(Pt(c.hi), c.x) => r = Pt(c.hi)
\* result - lo is congruent to +(x - lo) or -(x - lo) modulo twice the range
ReflectCongruent == Done /\ c.m = "reflect" =>
                      \E n \in NRange :
                         \/ Sub(r, Pt(c.lo)) = Add(Sub(c.x, Pt(c.lo)), Pt(2 * R * n))
                         \/ Sub(r, Pt(c.lo)) = Add(Sub(Pt(c.lo), c.x), Pt(2 * R * n))
ToroidalCongruent == Done /\ c.m = "toroidal" =>
                      \E n \in NRange : Sub(r, c.x) = Pt(R * n)
\* the laws determine the result (up to the identification of the two faces under wrapping)
Determined ==
    Done =>
      \A k \in c.lo..c.hi, d \in {-1, 0, 1} :
        LET w == <<k, d>> IN
        (/\ InBox(w, c.lo, c.hi)
         /\ (InBox(c.x, c.lo, c.hi) => w = c.x)
         /\ (c.m = "clip" => (Lt(c.x, Pt(c.lo)) => w = Pt(c.lo)) /\ (Lt(Pt(c.hi), c.x) => w = Pt(c.hi)))
         /\ (c.m = "reflect" => \E n \in NRange :
                \/ Sub(w, Pt(c.lo)) = Add(Sub(c.x, Pt(c.lo)), Pt(2 * R * n))
                \/ Sub(w, Pt(c.lo)) = Add(Sub(Pt(c.lo), c.x), Pt(2 * R * n)))
         /\ (c.m = "toroidal" => \E n \in NRange : Sub(w, c.x) = Pt(R * n)))
        => \/ w = r
           \/ (c.m = "toroidal" /\ {w, r} = {Pt(c.lo), Pt(c.hi)})

-----------------------------------------------------------------------------
(* Case table for the replay harness.                                      *)
Table == { [m |-> cc.m, lo |-> cc.lo, hi |-> cc.hi, xk |-> cc.x[1], xd |-> cc.x[2],
            rk |-> Repair(cc.m, cc.x, cc.lo, cc.hi)[1], rd |-> Repair(cc.m, cc.x, cc.lo, cc.hi)[2],
            inside |-> InBox(cc.x, cc.lo, cc.hi)] : cc \in {c2 \in Cases : Valid(c2)} }

WriteTable == ndJsonSerialize(IOEnv.VERIF_OUT, SetToSeq(Table))
=============================================================================
