SPECIFICATION Spec
CONSTANTS
  MaxPop = 4
  MaxRank = 2
INVARIANT ElitistNeverLoses
INVARIANT KeepsBestOffspring
INVARIANT SizeConstant
INVARIANT KthBestNeverLoses
INVARIANT SurvivorsFromBoth
POSTCONDITION WriteTable
CHECK_DEADLOCK FALSE
