------------------------------ MODULE Engines ------------------------------
(***************************************************************************)
(* C12 (selection step) and the decision-level part of C13: the selection  *)
(* operators of the population engines on abstract populations.            *)
(*                                                                         *)
(* Code: pyhms/core/individual.py:32-40 (ordering), core/population.py:    *)
(* 45-52 (topk / merge), demes/single_pop_eas/sea.py:96-101 (tournament),  *)
(* 116-126 ((mu + k) truncation), de.py:120-133, 148-173 (greedy           *)
(* one-to-one replacement of DE / SHADE).                                  *)
(*                                                                         *)
(* An individual is its goodness rank in the problem's own direction       *)
(* (0 best; equal rank = equal fitness).  A population is a sequence of    *)
(* ranks (index = position in the arrays of the implementation).           *)
(***************************************************************************)
EXTENDS Integers, Sequences, FiniteSets, TLC, Json, IOUtils, SequencesExt, FiniteSetsExt

CONSTANTS MaxPop, MaxRank

Ranks == 0..MaxRank
Pops(n) == [1..n -> Ranks]
SortedOf(s) == SortSeq(s, LAMBDA a, b : a < b)
Min2(a, b) == IF a < b THEN a ELSE b

\* best k of a population, as the sorted rank vector (unique even with ties)
TopK(s, k) == SubSeq(SortedOf(s), 1, Min2(k, Len(s)))

\* (mu + k) truncation: offspring merged with the k best parents, best mu kept   (sea.py:123-126)
SelectNew(parents, offspring, k) == TopK(offspring \o TopK(parents, k), Len(parents))

\* DE / SHADE greedy one-to-one replacement: the trial replaces its parent iff it is not worse  (de.py:126-133)
Replace(parents, trials) == [i \in DOMAIN parents |-> IF trials[i] <= parents[i] THEN trials[i] ELSE parents[i]]
TrialWins(parents, trials) == {i \in DOMAIN parents : trials[i] <= parents[i]}
\* C12 does not say who survives a tie: a replacement is acceptable iff every strictly better trial wins and no
\* strictly worse one does (C13 additionally wants the same choice on both formulations)
StrictWins(parents, trials) == {i \in DOMAIN parents : trials[i] < parents[i]}

\* tournament of size 2 on index pairs: the winner is the better of the two (first index on a tie: argmin/argmax)
Tournament(s, pairs) == [i \in DOMAIN pairs |-> IF s[pairs[i][2]] < s[pairs[i][1]] THEN pairs[i][2] ELSE pairs[i][1]]

-----------------------------------------------------------------------------
VARIABLES parents, offspring, k
vars == <<parents, offspring, k>>
Init == /\ \E n \in 2..MaxPop : parents \in Pops(n) /\ offspring \in Pops(n)
        /\ k \in 1..2
Next == UNCHANGED vars
Spec == Init /\ [][Next]_vars

Best(s) == Min({s[i] : i \in DOMAIN s})
\* C12 "the best fitness of a deme's population never gets worse from one generation to the next" (k >= 1)
ElitistNeverLoses == Best(SelectNew(parents, offspring, k)) <= Best(parents)
\* ... and never worse than the best offspring either (C04: the best evaluated offspring is kept)
KeepsBestOffspring == Best(SelectNew(parents, offspring, k)) <= Best(offspring)
\* C12 "population size is constant"
SizeConstant == Len(SelectNew(parents, offspring, k)) = Len(parents) /\ Len(Replace(parents, offspring)) = Len(parents)
\* C12 "in DE and SHADE the k-th best fitness never gets worse for every k"
KthBestNeverLoses ==
    LET a == SortedOf(Replace(parents, offspring))  b == SortedOf(parents) IN \A i \in DOMAIN a : a[i] <= b[i]
\* C11 at the decision level: every survivor is a parent or an offspring of this iteration
SurvivorsFromBoth ==
    \A r \in {SelectNew(parents, offspring, k)[i] : i \in 1..Len(parents)} :
        r \in {parents[i] : i \in DOMAIN parents} \cup {offspring[i] : i \in DOMAIN offspring}

-----------------------------------------------------------------------------
AllPairs(n) == [1..n -> (1..n) \X (1..n)]
Table ==
    UNION { { [op |-> "select", parents |-> p, offspring |-> o, k |-> kk, expect |-> SelectNew(p, o, kk)] :
                 p \in Pops(n), o \in Pops(n), kk \in 1..2 } : n \in 2..MaxPop }
    \cup UNION { { [op |-> "replace", parents |-> p, offspring |-> o, expect |-> Replace(p, o),
                    wins |-> SetToSeq(TrialWins(p, o)), swins |-> SetToSeq(StrictWins(p, o))] : p \in Pops(n), o \in Pops(n) } : n \in 2..MaxPop }
    \cup UNION { { [op |-> "topk", parents |-> p, k |-> kk, expect |-> TopK(p, kk)] : p \in Pops(n), kk \in 1..n } : n \in 1..MaxPop }
    \cup { [op |-> "order", a |-> a, b |-> b, lt |-> a > b, eq |-> a = b] : a \in Ranks, b \in Ranks }
    \cup UNION { { [op |-> "tournament", parents |-> p,
                    win |-> [a \in 1..n |-> [b \in 1..n |-> Tournament(p, <<<<a, b>>>>)[1]]]] : p \in Pops(n) } : n \in 2..MaxPop }

WriteTable == ndJsonSerialize(IOEnv.VERIF_OUT, SetToSeq(Table))
=============================================================================
