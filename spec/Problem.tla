------------------------------- MODULE Problem -------------------------------
(***************************************************************************)
(* C16 (and the budget law of C03): a stack of problem wrappers as a state *)
(* machine over Evaluate calls.                                            *)
(*                                                                         *)
(* Code: pyhms/core/problem.py                                             *)
(*   ProblemWrapper.evaluate            78-96   (delegation)               *)
(*   EvalCountingProblem.evaluate       125-128 (count after forwarding)   *)
(*   EvalCutoffProblem.evaluate         172-175 (refuse at the cutoff)     *)
(*   PrecisionCutoffProblem.evaluate    207-212 (first-hit bookkeeping)    *)
(*   StatsGatheringProblem.evaluate     241-247                            *)
(*                                                                         *)
(* A stack is a sequence of layers, outermost first, over a base problem   *)
(* with a direction.  The objective value of a call is abstracted to a     *)
(* class: "opt" (the optimum), "edge" (exactly at distance eps), "out".    *)
(* A refusing cutoff answers "worst" (+inf minimising, -inf maximising).   *)
(*                                                                         *)
(* Wrappers are ordinary shared objects: a layer below the top may also be *)
(* called directly (a counting problem used on its own before / between    *)
(* the calls through a cutoff around it, an inner problem shared by two    *)
(* stacks).  A call therefore ENTERS the stack at a layer e (1 = the top); *)
(* every law is stated on what each layer itself received.  Direct entries *)
(* are explored for stacks up to MaxDirectDepth layers.                    *)
(***************************************************************************)
EXTENDS Integers, Sequences, FiniteSets, TLC, Json, IOUtils, SequencesExt

CONSTANTS MaxDepth, MaxCalls, MaxCut, MaxDirectDepth, DirectCalls

Kinds   == {"count", "stats", "precision"} \cup {"cut" \o ToString(n) : n \in 0..MaxCut}
IsCut(k) == k \notin {"count", "stats", "precision"}
CutOf(k) == CHOOSE n \in 0..MaxCut : k = "cut" \o ToString(n)
Classes == {"opt", "edge", "out"}
InPrec(v) == v \in {"opt", "edge"}

Stacks == UNION {[1..d -> Kinds] : d \in 1..MaxDepth}

\* dir: calls that entered the stack AT this layer (ground truth kept by Evaluate, not by Call)
Layer0 == [n |-> 0, eta |-> 0, hit |-> FALSE, recv |-> 0, rets |-> <<>>, dir |-> 0]
Entries(s) == IF Len(s) <= MaxDirectDepth THEN 1..Len(s) ELSE {1}

\* One Evaluate(cls) entering layer i of stack `sk` with layer states `ls`.
\* Returns [ls, ret, base]: new layer states, returned value, 1 if the base objective was invoked.
RECURSIVE Call(_, _, _, _)
Call(sk, ls, i, cls) ==
    IF i > Len(sk) THEN [ls |-> ls, ret |-> cls, base |-> 1]
    ELSE LET k == sk[i]
             got == [ls EXCEPT ![i].recv = @ + 1]
         IN IF IsCut(k) /\ ls[i].n >= CutOf(k)
            THEN [ls |-> [got EXCEPT ![i].rets = Append(@, "worst")], ret |-> "worst", base |-> 0]
            ELSE LET r == Call(sk, got, i + 1, cls)
                     cnt == [r.ls EXCEPT ![i].n = @ + 1, ![i].rets = Append(@, r.ret)]
                     fin == IF k = "precision" /\ InPrec(r.ret) /\ ~cnt[i].hit
                            THEN [cnt EXCEPT ![i].eta = cnt[i].n, ![i].hit = TRUE] ELSE cnt
                 IN [ls |-> fin, ret |-> r.ret, base |-> r.base]

-----------------------------------------------------------------------------
VARIABLES sk, max, ls, base, calls, ents, last
vars == <<sk, max, ls, base, calls, ents, last>>

Init == /\ sk \in Stacks
        /\ max \in BOOLEAN
        /\ ls = [i \in DOMAIN sk |-> Layer0]
        /\ base = 0
        /\ calls = <<>>
        /\ ents = <<>>
        /\ last = "none"

Evaluate(cls, e) ==
    /\ Len(calls) < MaxCalls
    /\ LET r == Call(sk, ls, e, cls) IN
       /\ ls' = [r.ls EXCEPT ![e].dir = @ + 1]
       /\ base' = base + r.base
       /\ last' = r.ret
    /\ calls' = Append(calls, cls)
    /\ ents' = Append(ents, e)
    /\ UNCHANGED <<sk, max>>

EvaluateTop(cls)       == Evaluate(cls, 1)
EvaluateDirect(cls, e) == e > 1 /\ Evaluate(cls, e)
Next == \E c \in Classes : EvaluateTop(c) \/ \E e \in Entries(sk) : EvaluateDirect(c, e)
Spec == Init /\ [][Next]_vars

-----------------------------------------------------------------------------
(* The laws of C16                                                         *)
Min2(a, b) == IF a < b THEN a ELSE b
NCalls == Len(calls)
\* calls received by layer i (ground truth: the calls that entered at it plus what its outer neighbour forwarded)
Received(i) == ls[i].dir + (IF i = 1 THEN 0 ELSE ls[i - 1].n)
NoDirectBelow(i) == \A j \in DOMAIN sk : j > i => ls[j].dir = 0
BaseReceived == IF Len(sk) = 0 THEN NCalls ELSE ls[Len(sk)].n

\* "evaluate returns exactly the wrapped objective's value" unless a cutoff below refused
Transparent == last \in {"none", "worst"} \/ last = calls[NCalls]
WorstOnlyFromCutoff ==
    last = "worst" => \E i \in DOMAIN sk : IsCut(sk[i]) /\ ls[i].n = CutOf(sk[i]) /\ Received(i) > CutOf(sk[i])
\* "each counting wrapper counts exactly the evaluate calls it forwarded"
CountLaw == \A i \in DOMAIN sk :
              /\ ls[i].recv = Received(i)
              /\ IF IsCut(sk[i]) THEN ls[i].n = Min2(Received(i), CutOf(sk[i])) ELSE ls[i].n = Received(i)
BaseLaw == base = BaseReceived
\* "a cutoff wrapper forwards exactly the first N calls and afterwards returns the worst value without invoking
\*  the objective": the hard budget of C03
BudgetHard == \A i \in DOMAIN sk : IsCut(sk[i]) => /\ ls[i].n <= CutOf(sk[i])
                                                    /\ NoDirectBelow(i) => base <= CutOf(sk[i])
\* a cutoff's own budget is independent of whatever else its inner problem was used for
CutoffOwnBudget == \A i \in DOMAIN sk : IsCut(sk[i]) =>
                     \A j \in DOMAIN ls[i].rets : (j <= CutOf(sk[i]) /\ ls[i].rets[j] = "worst") =>
                        \E m \in DOMAIN sk : m > i /\ IsCut(sk[m]) /\ ls[m].n = CutOf(sk[m])
CutoffPrefix == \A i \in DOMAIN sk : IsCut(sk[i]) =>
                   \A j \in DOMAIN ls[i].rets : (j > CutOf(sk[i])) => ls[i].rets[j] = "worst"
\* "a precision wrapper records the 1-based index of the first evaluation within the precision"
PrecisionFirstHit ==
    \A i \in DOMAIN sk : sk[i] = "precision" =>
        LET hits == {j \in DOMAIN ls[i].rets : InPrec(ls[i].rets[j])} IN
        /\ ls[i].hit <=> hits # {}
        /\ ls[i].hit => ls[i].eta = CHOOSE j \in hits : \A h \in hits : j <= h
        /\ ~ls[i].hit => ls[i].eta = 0
\* "... and never un-sets it"
Sticky == [][\A i \in DOMAIN sk : ls[i].hit => ls'[i].hit /\ ls'[i].eta = ls[i].eta]_vars
CountersNeverDecrease == [][\A i \in DOMAIN sk : ls'[i].n >= ls[i].n]_vars

-----------------------------------------------------------------------------
(* Case table for the replay harness: every stack x direction x call sequence of length MaxCalls, with the    *)
(* observation expected after each call.                                                                    *)
Obs(lss, ret, b) == [ret |-> ret, n |-> [i \in DOMAIN lss |-> lss[i].n], eta |-> [i \in DOMAIN lss |-> lss[i].eta],
                     hit |-> [i \in DOMAIN lss |-> lss[i].hit], base |-> b]

RECURSIVE RunSeq(_, _, _, _, _, _)
RunSeq(s, lss, b, cs, es, acc) ==
    IF cs = <<>> THEN acc
    ELSE LET r == Call(s, lss, Head(es), Head(cs)) IN
         RunSeq(s, r.ls, b + r.base, Tail(cs), Tail(es), Append(acc, Obs(r.ls, r.ret, b + r.base)))

Row(s, cs, es) == [stack |-> s, calls |-> cs, ents |-> es, obs |-> RunSeq(s, [i \in DOMAIN s |-> Layer0], 0, cs, es, <<>>)]
\* all calls through the top: every sequence of MaxCalls classes
TopTable == { Row(s, cs, [j \in 1..MaxCalls |-> 1]) : s \in Stacks, cs \in [1..MaxCalls -> Classes] }
\* at least one call entering below the top: every sequence of DirectCalls (class, entry) pairs
DirectTable == UNION { { Row(s, cs, es) : cs \in [1..DirectCalls -> Classes],
                                          es \in {f \in [1..DirectCalls -> Entries(s)] : \E j \in DOMAIN f : f[j] > 1} } :
                       s \in {t \in Stacks : Len(t) > 1 /\ Len(t) <= MaxDirectDepth} }
Table == SetToSeq(TopTable) \o SetToSeq(DirectTable)

WriteTable == ndJsonSerialize(IOEnv.VERIF_OUT, Table)
=============================================================================
