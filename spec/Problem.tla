------------------------------- MODULE Problem -------------------------------
(***************************************************************************)
(* C16 (and the budget law of C03): a stack of problem wrappers as a state *)
(* machine over Evaluate calls.                                            *)
(*                                                                         *)
(* Code: pyhms/core/problem.py                                             *)
(*   ProblemWrapper.evaluate            78-96   (delegation)               *)
(*   EvalCountingProblem.evaluate       125-128 (count after forwarding)   *)
(*   EvalCutoffProblem.evaluate         172-175 (refuse at the cutoff)     *)
(*   PrecisionCutoffProblem.evaluate    207-212 (first-hit bookkeeping)    *)
(*   StatsGatheringProblem.evaluate     241-247                            *)
(*                                                                         *)
(* A stack is a sequence of layers, outermost first, over a base problem   *)
(* with a direction.  The objective value of a call is abstracted to a     *)
(* class: "opt" (the optimum), "edge" (exactly at distance eps), "out".    *)
(* A refusing cutoff answers "worst" (+inf minimising, -inf maximising).   *)
(***************************************************************************)
EXTENDS Integers, Sequences, FiniteSets, TLC, Json, IOUtils, SequencesExt

CONSTANTS MaxDepth, MaxCalls, MaxCut

Kinds   == {"count", "stats", "precision"} \cup {"cut" \o ToString(n) : n \in 0..MaxCut}
IsCut(k) == k \notin {"count", "stats", "precision"}
CutOf(k) == CHOOSE n \in 0..MaxCut : k = "cut" \o ToString(n)
Classes == {"opt", "edge", "out"}
InPrec(v) == v \in {"opt", "edge"}

Stacks == UNION {[1..d -> Kinds] : d \in 1..MaxDepth}

Layer0 == [n |-> 0, eta |-> 0, hit |-> FALSE, recv |-> 0, rets |-> <<>>]

\* One Evaluate(cls) entering layer i of stack `sk` with layer states `ls`.
\* Returns [ls, ret, base]: new layer states, returned value, 1 if the base objective was invoked.
RECURSIVE Call(_, _, _, _)
Call(sk, ls, i, cls) ==
    IF i > Len(sk) THEN [ls |-> ls, ret |-> cls, base |-> 1]
    ELSE LET k == sk[i]
             got == [ls EXCEPT ![i].recv = @ + 1]
         IN IF IsCut(k) /\ ls[i].n >= CutOf(k)
            THEN [ls |-> [got EXCEPT ![i].rets = Append(@, "worst")], ret |-> "worst", base |-> 0]
            ELSE LET r == Call(sk, got, i + 1, cls)
                     cnt == [r.ls EXCEPT ![i].n = @ + 1, ![i].rets = Append(@, r.ret)]
                     fin == IF k = "precision" /\ InPrec(r.ret) /\ ~cnt[i].hit
                            THEN [cnt EXCEPT ![i].eta = cnt[i].n, ![i].hit = TRUE] ELSE cnt
                 IN [ls |-> fin, ret |-> r.ret, base |-> r.base]

-----------------------------------------------------------------------------
VARIABLES sk, max, ls, base, calls, last
vars == <<sk, max, ls, base, calls, last>>

Init == /\ sk \in Stacks
        /\ max \in BOOLEAN
        /\ ls = [i \in DOMAIN sk |-> Layer0]
        /\ base = 0
        /\ calls = <<>>
        /\ last = "none"

Evaluate(cls) ==
    /\ Len(calls) < MaxCalls
    /\ LET r == Call(sk, ls, 1, cls) IN
       /\ ls' = r.ls
       /\ base' = base + r.base
       /\ last' = r.ret
    /\ calls' = Append(calls, cls)
    /\ UNCHANGED <<sk, max>>

Next == \E c \in Classes : Evaluate(c)
Spec == Init /\ [][Next]_vars

-----------------------------------------------------------------------------
(* The laws of C16                                                         *)
Min2(a, b) == IF a < b THEN a ELSE b
NCalls == Len(calls)
\* calls received by layer i (ground truth: the outermost layer receives all, a layer below receives what its
\* outer neighbour forwarded)
Received(i) == IF i = 1 THEN NCalls ELSE ls[i - 1].n
BaseReceived == IF Len(sk) = 0 THEN NCalls ELSE ls[Len(sk)].n

\* "evaluate returns exactly the wrapped objective's value" unless a cutoff below refused
Transparent == last \in {"none", "worst"} \/ last = calls[NCalls]
WorstOnlyFromCutoff ==
    last = "worst" => \E i \in DOMAIN sk : IsCut(sk[i]) /\ ls[i].n = CutOf(sk[i]) /\ Received(i) > CutOf(sk[i])
\* "each counting wrapper counts exactly the evaluate calls it forwarded"
CountLaw == \A i \in DOMAIN sk :
              /\ ls[i].recv = Received(i)
              /\ IF IsCut(sk[i]) THEN ls[i].n = Min2(Received(i), CutOf(sk[i])) ELSE ls[i].n = Received(i)
BaseLaw == base = BaseReceived
\* "a cutoff wrapper forwards exactly the first N calls and afterwards returns the worst value without invoking
\*  the objective": the hard budget of C03
BudgetHard == \A i \in DOMAIN sk : IsCut(sk[i]) => base <= CutOf(sk[i])
CutoffPrefix == \A i \in DOMAIN sk : IsCut(sk[i]) =>
                   \A j \in DOMAIN ls[i].rets : (j > CutOf(sk[i])) => ls[i].rets[j] = "worst"
\* "a precision wrapper records the 1-based index of the first evaluation within the precision"
PrecisionFirstHit ==
    \A i \in DOMAIN sk : sk[i] = "precision" =>
        LET hits == {j \in DOMAIN ls[i].rets : InPrec(ls[i].rets[j])} IN
        /\ ls[i].hit <=> hits # {}
        /\ ls[i].hit => ls[i].eta = CHOOSE j \in hits : \A h \in hits : j <= h
        /\ ~ls[i].hit => ls[i].eta = 0
\* "... and never un-sets it"
Sticky == [][\A i \in DOMAIN sk : ls[i].hit => ls'[i].hit /\ ls'[i].eta = ls[i].eta]_vars
CountersNeverDecrease == [][\A i \in DOMAIN sk : ls'[i].n >= ls[i].n]_vars

-----------------------------------------------------------------------------
(* Case table for the replay harness: every stack x direction x call sequence of length MaxCalls, with the    *)
(* observation expected after each call.                                                                    *)
Obs(lss, ret, b) == [ret |-> ret, n |-> [i \in DOMAIN lss |-> lss[i].n], eta |-> [i \in DOMAIN lss |-> lss[i].eta],
                     hit |-> [i \in DOMAIN lss |-> lss[i].hit], base |-> b]

RECURSIVE RunSeq(_, _, _, _, _)
RunSeq(s, lss, b, cs, acc) ==
    IF cs = <<>> THEN acc
    ELSE LET r == Call(s, lss, 1, Head(cs)) IN
         RunSeq(s, r.ls, b + r.base, Tail(cs), Append(acc, Obs(r.ls, r.ret, b + r.base)))

Table == { [stack |-> s, calls |-> cs, obs |-> RunSeq(s, [i \in DOMAIN s |-> Layer0], 0, cs, <<>>)] :
             s \in Stacks, cs \in [1..MaxCalls -> Classes] }

WriteTable == ndJsonSerialize(IOEnv.VERIF_OUT, SetToSeq(Table))
=============================================================================
