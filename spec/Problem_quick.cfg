SPECIFICATION Spec
CONSTANTS
  MaxDepth = 3
  MaxCalls = 4
  MaxDirectDepth = 2
  DirectCalls = 3
  MaxCut = 2
INVARIANT Transparent
INVARIANT WorstOnlyFromCutoff
INVARIANT CountLaw
INVARIANT BaseLaw
INVARIANT BudgetHard
INVARIANT CutoffPrefix
INVARIANT CutoffOwnBudget
INVARIANT PrecisionFirstHit
PROPERTY Sticky
PROPERTY CountersNeverDecrease
POSTCONDITION WriteTable
CHECK_DEADLOCK FALSE
