------------------------------ MODULE HMSModel ------------------------------
(***************************************************************************)
(* Design model: HMS.tla driven by a nondeterministic environment          *)
(*   - verdicts of user-defined / scripted stop conditions,                *)
(*   - CMA-ES' own stop criterion,                                         *)
(*   - evaluations per engine iteration and per local search,              *)
(*   - what each active non-leaf deme offers in a sprouting round and what *)
(*     the level limit lets through,                                       *)
(* for a set of small configurations (one initial state per configuration).*)
(* TLC checks every clause of HMS.tla in every reachable state, and the    *)
(* history variable `script` turns behaviours into scenario scripts that   *)
(* the harness replays on the real library (harness/scenarios.py).         *)
(***************************************************************************)
EXTENDS HMS, Json

CONSTANTS Configs,       \* set of configuration records
          MaxMeta,       \* bound on the metaepoch counter
          MaxDemes,      \* bound on the number of demes
          MaxOffer,      \* candidates a parent may offer per round
          MaxLocal,      \* evaluations of a local search: 1..MaxLocal
          AllowSelfStop, \* CMA-ES internal stop explored?
          EmitScripts,   \* print one scenario script per terminal state?
          AllowManual,   \* caller-driven stepping: run_step() also when the global condition holds / after run() returned
          AllowVariants, \* protocol variants inside a deme's metaepoch that no property excludes (LscFirst, SelfStopSilently)
          ExactOffers    \* scenario export: parents offer no more than the filters let through (the real run can
                         \* then follow the script literally; cutting is covered by the corpus and Sprout.tla)

VARIABLES st, script
vars == <<st, script>>

Note(rec) == script' = Append(script, rec)

GscChoices(s)     == IF GscModelled(s) THEN {GscVal(s)} ELSE IF s.gscSeen THEN {TRUE} ELSE BOOLEAN
LscChoices(s, d)  == IF LscModelled(s, d) THEN {LscVal(s, d)} ELSE BOOLEAN
SelfChoices(s, d) == IF Eng(s, d) = "CMA" /\ AllowSelfStop THEN BOOLEAN ELSE {FALSE}

Init == /\ st \in {InitState(c) : c \in Configs}
        /\ script = <<>>

ChildInit ==
    /\ st.pendingInit # <<>>
    /\ LET c == Head(st.pendingInit) IN
       /\ EnChildInit(st, c)
       /\ \E k \in InitEvalSet(st, c) : st' = DoChildInit(st, c, k)
    /\ UNCHANGED script

LoopCheck ==
    /\ EnLoopCheck(st)
    /\ \E v \in GscChoices(st) :
         /\ st' = DoLoopCheck(st, v)
         /\ Note([a |-> "gsc", by |-> "run", v |-> v])

Begin ==
    /\ st.pc = "meta" /\ st.cur = NoDeme /\ st.queue # <<>>
    /\ LET d == Head(st.queue) IN
       /\ Eng(st, d) # "LOCAL"
       /\ st' = DoBegin(st, d)
    /\ UNCHANGED script

Iter ==
    /\ st.cur # NoDeme /\ EnIter(st, st.cur)
    /\ \E k \in IterEvalSet(st, st.cur) : st' = DoIter(st, st.cur, k)
    /\ UNCHANGED script

GenGsc ==
    /\ st.cur # NoDeme /\ EnGenGsc(st, st.cur)
    /\ \E v \in GscChoices(st), s \in SelfChoices(st, st.cur) :
         /\ st' = DoGenGsc(st, st.cur, v, s)
         /\ Note([a |-> "gsc", by |-> st.cur, v |-> v])

Lsc ==
    /\ st.cur # NoDeme /\ EnLsc(st, st.cur)
    /\ \E v \in LscChoices(st, st.cur), s \in SelfChoices(st, st.cur) :
         /\ st' = DoLsc(st, st.cur, v, s)
         /\ Note([a |-> "lsc", d |-> st.cur, m |-> st.D[st.cur].me, v |-> v, lvl |-> Lvl(st, st.cur)])

LocalRun ==
    /\ st.pc = "meta" /\ st.cur = NoDeme /\ st.queue # <<>>
    /\ LET d == Head(st.queue) IN
       /\ EnLocalRun(st, d)
       /\ \E k \in 1..MaxLocal : st' = DoLocalRun(st, d, k)
    /\ UNCHANGED script

PostGsc ==
    /\ EnPostGsc(st)
    /\ \E v \in GscChoices(st) :
         /\ st' = DoPostGsc(st, v)
         /\ Note([a |-> "gsc", by |-> "step", v |-> v])

\* offers O: what each candidate parent proposes; S: what the filters let through.
\* BestPerDeme / NBC_Generator: the active non-leaf demes (sprout_generators.py:15-46).
\* NBCGeneratorWithLocalMethod (49-77): active demes above the last two levels, plus the demes of the last-but-one
\* level that finished in the previous metaepoch (started_at + len(history) = metaepoch count), one candidate each.
LocalMethod(s)  == s.cfg.localmethod = 1
JustFinished(s) == {d \in Ids(s) : Lvl(s, d) = NLevels(s) - 2 /\ ~s.D[d].active
                                    /\ s.D[d].startedAt + s.D[d].me + 1 = s.mc}
ParentSet(s)    == IF LocalMethod(s)
                   THEN {d \in ActiveNonLeaves(s) : Lvl(s, d) < NLevels(s) - 2} \cup JustFinished(s)
                   ELSE ActiveNonLeaves(s)
OfferCap(s, d)  == IF LocalMethod(s) /\ d \in JustFinished(s) THEN 1 ELSE MaxOffer
Parents(s)   == SelectSeq(OrderedIds(s), LAMBDA d : d \in ParentSet(s))
RoundOf(s, f) == LET ps == SelectSeq(Parents(s), LAMBDA d : f[d] > 0) IN [i \in DOMAIN ps |-> <<ps[i], f[ps[i]]>>]
Total(s, f, l) == Sum([d \in DOMAIN f |-> IF Lvl(s, d) = l - 1 THEN f[d] ELSE 0], DOMAIN f)
Free(s, l)    == IF s.cfg.limit = NoLimit THEN MaxOffer * 4
                 ELSE IF s.cfg.limit - Cardinality(ActiveOn(s, l)) > 0 THEN s.cfg.limit - Cardinality(ActiveOn(s, l)) ELSE 0
Min2(a, b)    == IF a < b THEN a ELSE b
\* LevelLimit (sprout_filters.py:149-171) keeps exactly min(offered, free) per level when the fitness values
\* are distinct; which parent loses candidates depends on the fitness values (free choice here)
Filtered(s, O, S) == /\ \A d \in DOMAIN O : S[d] <= O[d]
                     /\ \A l \in 1..(NLevels(s) - 1) : Total(s, S, l) = Min2(Total(s, O, l), Free(s, l))

Sprout ==
    /\ EnSprout(st)
    /\ \E O \in [ParentSet(st) -> 0..MaxOffer] :
         \E S \in [ParentSet(st) -> 0..MaxOffer] :
            /\ \A d \in ParentSet(st) : O[d] <= OfferCap(st, d)
            /\ Filtered(st, O, S)
            /\ ExactOffers => S = O
            /\ LET R == RoundOf(st, S) IN
               /\ ValidRound(st, R) /\ WithinLimit(st, R)
               /\ st' = DoSprout(st, R)
               /\ Note([a |-> "round", offers |-> [i \in DOMAIN Parents(st) |-> <<Parents(st)[i], O[Parents(st)[i]]>>],
                        kept |-> R])

\* Protocol variants that no listed property excludes (met in behaviour-preserving refactorings of the library; the trace
\* specification accepts them): explored with AllowVariants to show that every clause holds for them as well.
\*  - after its last generation the deme asks its local condition first and the global one only if it would go on;
LscFirst ==
    /\ AllowVariants
    /\ st.cur # NoDeme /\ EnGenGsc(st, st.cur) /\ st.gen >= GensOf(st, st.cur)
    /\ LET d == st.cur
           c == [Commit(st, d) EXCEPT !.await = "lsc"] IN
       \E vl \in LscChoices(c, d) :
          IF vl THEN /\ st' = DoLsc(c, d, TRUE, FALSE)
                     /\ Note([a |-> "lsc_first", d |-> d, v |-> TRUE, g |-> FALSE])
          ELSE \E v \in GscChoices(c), sf \in SelfChoices(c, d) :
                 /\ st' = IF v THEN Norm([DoLsc(c, d, FALSE, FALSE) EXCEPT !.D[d].active = FALSE, !.D[d].why = "gsc",
                                                 !.gscSeen = TRUE, !.gscAt = IF @ = -1 THEN st.steps ELSE @])
                          ELSE DoLsc(c, d, FALSE, sf)
                 /\ Note([a |-> "lsc_first", d |-> d, v |-> FALSE, g |-> v])
\*  - a CMA-ES deme whose engine has terminated itself after an iteration asks nobody.
SelfStopSilently ==
    /\ AllowVariants /\ AllowSelfStop
    /\ st.cur # NoDeme /\ EnGenGsc(st, st.cur) /\ Eng(st, st.cur) = "CMA"
    /\ st' = DoLsc([Commit(st, st.cur) EXCEPT !.await = "lsc"], st.cur, FALSE, TRUE)
    /\ UNCHANGED script

\*  - the tree asks the global condition between two children of a sprouting round and abandons the remaining seeds when it
\*    holds (free verdicts only: a condition computed from evaluation totals would need the children's initial evaluations,
\*    which the model performs after the round).  The round then "took a sprout" from the parents of the children that exist.
RECURSIVE CutRound(_, _)
CutRound(R, j) ==          \* the first j children of round R (a sequence of <<parent, n>>)
    IF j <= 0 \/ R = <<>> THEN <<>>
    ELSE IF Head(R)[2] >= j THEN << <<Head(R)[1], j>> >>
    ELSE <<Head(R)>> \o CutRound(Tail(R), j - Head(R)[2])
RoundSize(R) == Sum([i \in DOMAIN R |-> R[i][2]], DOMAIN R)
SproutAbandoned ==
    /\ AllowVariants /\ EnSprout(st) /\ ~GscModelled(st) /\ ~ExactOffers
    /\ \E O \in [ParentSet(st) -> 0..MaxOffer] :
         \E S \in [ParentSet(st) -> 0..MaxOffer] :
            /\ \A d \in ParentSet(st) : O[d] <= OfferCap(st, d)
            /\ Filtered(st, O, S)
            /\ LET R == RoundOf(st, S) IN
               /\ ValidRound(st, R) /\ WithinLimit(st, R) /\ RoundSize(R) >= 2
               /\ \E j \in 1..(RoundSize(R) - 1) :
                    /\ st' = [DoSprout(st, CutRound(R, j)) EXCEPT !.gscSeen = TRUE, !.gscAt = IF @ = -1 THEN st.steps ELSE @]
                    /\ Note([a |-> "round_abandoned", kept |-> CutRound(R, j)])

\* the caller steps the tree itself (DemeTree.run_step is public): a step begins whatever the global condition says
ManualStep ==
    /\ AllowManual
    /\ st.pc \in {"loop", "done"} /\ st.pendingInit = <<>>
    /\ st' = DoLoopCheck([st EXCEPT !.pc = "loop"], FALSE)
    /\ Note([a |-> "manual_step"])

Next == ManualStep \/ LscFirst \/ SelfStopSilently \/ SproutAbandoned \/ ChildInit \/ LoopCheck \/ Begin \/ Iter \/ GenGsc \/ Lsc \/ LocalRun \/ PostGsc \/ Sprout

Spec == Init /\ [][Next]_vars

\* C05 "run() performs whole metaepochs until the global stop condition holds and returns": with a condition that is
\* bound to hold eventually (MetaepochLimit) every fair behaviour reaches pc = "done".  Checked without a state
\* constraint (a constraint can hide non-progress cycles) on LiveConfigs.
FairSpec    == Spec /\ WF_vars(Next)
Termination == <>(st.pc = "done")

Bound == st.mc <= MaxMeta /\ Cardinality(Ids(st)) <= MaxDemes

-----------------------------------------------------------------------------
(* State clauses *)
Inv_C07_Structure              == C07_Structure(st)
Inv_C07_IdLaw                  == C07_IdLaw(st)
Inv_C08_ActiveWithinLimit      == C08_ActiveWithinLimit(st)
Inv_C05_WindDownAtMostOne      == C05_WindDownAtMostOne(st)
Inv_C05_DoneImpliesGsc         == C05_DoneImpliesGsc(st)
Inv_C05_CounterEqualsPerformed == C05_CounterEqualsPerformed(st)
Inv_C06_SteppedExactlyOnce     == C06_SteppedExactlyOnce(st)
Inv_C06_NewbornHasNotRun       == C06_NewbornHasNotRun(st)
Inv_C18_HibIff                 == C18_HibIffNoSproutInLastRound(st)
Inv_C18_OffMeansNever          == C18_OffMeansNever(st)
Inv_C18_AsleepMeansFrozen      == C18_AsleepMeansFrozen(st)
Inv_C18_NoIdleUnlessAllAsleep  == C18_NoIdleUnlessAllAsleep(st)
\* expected to be VIOLATED: witnesses that the stall of known finding KF-C18-stall is reachable in the design
Inv_C18_NoIdleMetaepoch        == C18_NoIdleMetaepoch(st)
\* C03 at the design level: the tree total is the sum over the demes, level by level
Inv_C03_TotalIsSumOfLevels     == TotalEvals(st) = Sum([l \in 0..(NLevels(st) - 1) |-> LevelEvals(st, l)], 0..(NLevels(st) - 1))

\* C03 at the design level: hard budget, requests = forwarded + refused, totals equal calls until the first refusal
Inv_C03_BudgetHard             == C03_BudgetHard(st)
Inv_C03_TotalEqualsCalls       == C03_TotalEqualsCalls(st)
Inv_C03_RequestsSplit          == C03_RequestsSplit(st)
\* beyond the list: deme clocks and the adaptive-mutation schedule
Inv_G_ClockNotAhead            == G_ClockNotAhead(st)
Inv_G_ClockInSync              == G_ClockInSync(st)
Inv_G_SinceSproutRawNonNeg     == G_SinceSproutRawNonNeg(st)
Inv_G_SinceSproutBounded       == G_SinceSproutBounded(st)
Inv_G_WoundDownOneStepLater    == G_WoundDownOneStepLater(st)
\* expected to be VIOLATED (witness): with hibernation the raw distance to the last sprout does go negative
Inv_G_SinceSproutRawNonNegAlways == \A d \in Ids(st) : st.D[d].active => SinceSproutRaw(st, d) >= 0

(* Witnesses: each is expected to be VIOLATED - the state it excludes is an antecedent some clause above needs,
   so its reachability shows that the clause is not vacuous in the bounded model (harness/mod_model.py) *)
W_BudgetNeverRefuses    == st.refused = 0
W_BudgetNeverCutsABatch == ~(st.refused > 0 /\ st.fwd > 0 /\ \E d \in Ids(st) : st.D[d].evals > st.fwd)
W_NoGscWithDemesQueued  == ~(st.gscSeen /\ st.pc = "meta" /\ Len(st.queue) >= 1)
W_NoGscAtLoopHeadFirst  == ~(st.pc = "done" /\ st.mc = 0)
W_LevelNeverFull        == st.cfg.limit = NoLimit \/ \A l \in 1..(NLevels(st) - 1) : Cardinality(ActiveOn(st, l)) < st.cfg.limit
W_NoSlotRefilled        == ~(\E l \in 1..(NLevels(st) - 1) : Len(st.L[l + 1]) > st.cfg.limit /\ st.cfg.limit # NoLimit)
W_NobodyHibernates      == \A d \in Ids(st) : ~st.D[d].hib
W_NobodyWakes           == ~(\E d \in Ids(st) : st.D0 # <<>> /\ d \in DOMAIN st.D0 /\ st.D0[d].hib /\ ~st.D[d].hib /\ st.D[d].active)
W_NoSelfStop            == \A d \in Ids(st) : st.D[d].why # "self" \/ Eng(st, d) = "LOCAL"
W_NoThirdLevelDeme      == \A d \in Ids(st) : st.D[d].lvl < 2
W_NoWindDown            == \A d \in DOMAIN st.wind : st.wind[d] = 0
W_NoJustFinishedOffer   == ~(LocalMethod(st) /\ \E d \in Ids(st) : ~st.D[d].active /\ Kids(st, d) # {} /\
                                   \E c \in Kids(st, d) : st.D[c].startedAt > Clock(st, d))

(* Action clauses *)
Act_C05_NoSproutAfterGsc   == [][C05_NoSproutAfterGsc(st, st')]_vars
Act_C06_InactiveFrozen     == [][C06_InactiveFrozen(st, st')]_vars
Act_C06_StopCauses         == [][C06_StopCauses(st, st')]_vars
Act_C08_RoundWithinFree    == [][C08_RoundWithinFreeSlots(st, st')]_vars
Act_C05_McMonotone         == [][st'.mc \in {st.mc, st.mc + 1}]_vars

(* Scenario export: one script per terminal state (with VIEW = st) or per simulated behaviour *)
Emit == EmitScripts /\ st.pc = "done" =>
           PrintT(<<"SCRIPT", ToJson([cfg |-> st.cfg, script |-> script,
                                      final |-> [mc |-> st.mc,
                                                 demes |-> [i \in DOMAIN OrderedIds(st) |->
                                                    LET d == OrderedIds(st)[i] IN
                                                    [id |-> d, act |-> st.D[d].active, hib |-> st.D[d].hib,
                                                     me |-> st.D[d].me, sa |-> st.D[d].startedAt]]]])>>)
ViewSt == st
=============================================================================
