--------------------------------- MODULE HMS ---------------------------------
(***************************************************************************)
(* Control plane of pyhms' DemeTree: the metaepoch loop, the per-engine    *)
(* generation loops with their stop-condition consults, sprouting rounds,  *)
(* hibernation, evaluation accounting.                                     *)
(*                                                                         *)
(* One operator per critical section of the implementation:                *)
(*                                                                         *)
(*   DoLoopCheck   tree.py:127-129, 140, 154-155  run(): consult, begin    *)
(*                 the step, build the deme queue once                     *)
(*   DoBegin       tree.py:155-159  pick the next awake deme               *)
(*   DoIter        ea_deme.py:45-47 de_deme.py:48-52 shade_deme.py:44-48   *)
(*                 cma_deme.py:46-52  one engine iteration                 *)
(*                 lhs_deme.py:20-27 sobol_deme.py:20-27 one sample        *)
(*   DoGenGsc      ea_deme.py:49-53 (same in de/shade) cma_deme.py:53-59   *)
(*                 lhs_deme.py:31 sobol_deme.py:31                         *)
(*   DoLsc         ea_deme.py:54-57 ... cma_deme.py:63 lhs_deme.py:31      *)
(*   DoLocalRun    local_deme.py:26-46  one complete local search          *)
(*   DoPostGsc     tree.py:143                                             *)
(*   DoSprout      tree.py:161-212, sprout_mechanisms.py:30-40             *)
(*   DoChildInit   *_deme.__init__: initial population of a new deme       *)
(*                                                                         *)
(* The whole abstract state is one record `st`; every operator is a pure   *)
(* function of it, so the design model (Next below) and the trace          *)
(* specification (HMSTrace.tla) execute the very same definitions, and the *)
(* clause operators (C05_..., C06_..., ...) are evaluated on both.         *)
(*                                                                         *)
(* The model describes the behaviour under which the listed properties     *)
(* hold (DESIGN.md section 3).                                             *)
(***************************************************************************)
EXTENDS Integers, Sequences, FiniteSets, TLC, SequencesExt, FiniteSetsExt

NoDeme == "-"
RootId == "root"
NoLimit == -1

PopEngines   == {"SEA", "DE", "SHADE", "CMA"}
ShotEngines  == {"LHS", "SOBOL"}
AllEngines   == PopEngines \cup ShotEngines \cup {"LOCAL"}

ChildId(pid, n) == IF pid = RootId THEN ToString(n) ELSE pid \o "/" \o ToString(n)

-----------------------------------------------------------------------------
(* Reading the state                                                       *)
NLevels(st)      == st.cfg.nlevels
LCfg(st, l)      == st.cfg.levels[l + 1]             \* l is the 0-based level number
Ids(st)          == DOMAIN st.D
Lvl(st, d)       == st.D[d].lvl
Eng(st, d)       == LCfg(st, Lvl(st, d)).eng
GensOf(st, d)    == LCfg(st, Lvl(st, d)).gens
HibOn(st)        == st.cfg.hib = 1
Asleep(st, d)    == HibOn(st) /\ st.D[d].hib
OrderedIds(st)   == FlattenSeq(st.L)                 \* level by level, creation order
ActiveSeq(st)    == SelectSeq(OrderedIds(st), LAMBDA d : st.D[d].active)
ActiveOn(st, l)  == {d \in Ids(st) : Lvl(st, d) = l /\ st.D[d].active}
IsLeafLevel(st, l) == l = NLevels(st) - 1
ActiveNonLeaves(st) == {d \in Ids(st) : st.D[d].active /\ ~IsLeafLevel(st, Lvl(st, d))}
Kids(st, d)      == {c \in Ids(st) : st.D[c].parent = d}
Sum(f, S)        == FoldSet(LAMBDA x, acc : acc + f[x], 0, S)
TotalEvals(st)   == Sum([d \in Ids(st) |-> st.D[d].evals], Ids(st))
LevelEvals(st, l) == Sum([d \in Ids(st) |-> st.D[d].evals], {d \in Ids(st) : Lvl(st, d) = l})

-----------------------------------------------------------------------------
(* Shipped stop conditions (stop_conditions/gsc.py, usc.py, lsc.py).       *)
(* "Free" kinds (user-defined / scripted, precision, fitness steadiness)   *)
(* have no model value: their verdict is an input.                         *)
GscModelled(st) == st.cfg.gsc \in {"MetaepochLimit", "SingularEvalLimit", "WeightedEvalLimit", "RootStopped",
                                   "AllStopped", "NoActiveNonroot", "DontRun"}
GscVal(st) ==
    LET k == st.cfg.gsc  n == st.cfg.gscn IN
    CASE k = "MetaepochLimit"    -> st.mc >= n
      [] k = "SingularEvalLimit" -> TotalEvals(st) >= n
      [] k = "WeightedEvalLimit" -> Sum([d \in Ids(st) |-> st.cfg.gscw[Lvl(st, d) + 1] * st.D[d].evals], Ids(st)) >= n
      [] k = "RootStopped"       -> ~st.D[RootId].active
      [] k = "AllStopped"        -> \A d \in Ids(st) : ~st.D[d].active
      [] k = "NoActiveNonroot"   -> \A l \in 1..(NLevels(st) - 1) :
                                       /\ st.L[l + 1] # <<>>
                                       /\ \A d \in Ids(st) : Lvl(st, d) = l =>
                                             ~st.D[d].active /\ st.mc > st.D[d].startedAt + st.D[d].me + n
      [] k = "DontRun"           -> TRUE
      [] OTHER                   -> FALSE

LscModelled(st, d) == LCfg(st, Lvl(st, d)).lsc \in {"MetaepochLimit", "DontStop", "DontRun", "AllChildrenStopped"}
LscVal(st, d) ==
    LET k == LCfg(st, Lvl(st, d)).lsc IN
    CASE k = "MetaepochLimit"     -> st.D[d].me >= LCfg(st, Lvl(st, d)).lscn
      [] k = "DontStop"           -> FALSE
      [] k = "DontRun"            -> TRUE
      [] k = "AllChildrenStopped" -> Kids(st, d) # {} /\ \A c \in Kids(st, d) : ~st.D[c].active
      [] OTHER                    -> FALSE

-----------------------------------------------------------------------------
(* Initial state: the tree constructor builds the root deme                *)
NewDeme(l, p, sa) == [lvl |-> l, parent |-> p, startedAt |-> sa, active |-> TRUE, hib |-> FALSE,
                      evals |-> 0, me |-> 0, gens |-> <<1>>, why |-> "-"]

InitState(cfg) ==
    [cfg |-> cfg, pc |-> "init", mc |-> 0,
     D |-> [d \in {RootId} |-> NewDeme(0, NoDeme, 0)],
     L |-> [i \in 1..cfg.nlevels |-> IF i = 1 THEN <<RootId>> ELSE <<>>],
     queue |-> <<>>, cur |-> NoDeme, gen |-> 0, await |-> "-",
     gscSeen |-> FALSE, wind |-> [d \in {RootId} |-> 0],
     D0 |-> [d \in {RootId} |-> NewDeme(0, NoDeme, 0)],      \* deme table at the beginning of the step
     stepCalls |-> 0, steps |-> 0,
     fwd |-> 0, refused |-> 0,                                \* objective invocations / refusals of the budget wrapper
     gscAt |-> -1,                                            \* value of `steps` when the global condition was first observed true
     ban |-> {},                                              \* trace validation: demes that must not be created any more
     pendingInit |-> <<RootId>>,                              \* demes constructed, initial evaluations pending
     roundPart |-> {}, roundFrom |-> {}, roundNew |-> {}, rounds |-> 0]

-----------------------------------------------------------------------------
(* Evaluation accounting.  Every deme counts the evaluations it *requests* *)
(* (abstract_deme.py:46: its own EvalCountingProblem is the outermost      *)
(* wrapper); an evaluation-budget wrapper below it (problem.py             *)
(* EvalCutoffProblem, shared by all levels as in hms.py:62) forwards only  *)
(* the first `budget` requests to the objective and refuses the rest.      *)
Budget(st)  == IF "budget" \in DOMAIN st.cfg THEN st.cfg.budget ELSE NoLimit
Room(st)    == IF Budget(st) = NoLimit THEN 1000000 ELSE IF Budget(st) > st.fwd THEN Budget(st) - st.fwd ELSE 0
Account(st, d, k) ==
    LET f == IF k <= Room(st) THEN k ELSE Room(st) IN
    [st EXCEPT !.D[d].evals = @ + k, !.fwd = @ + f, !.refused = @ + (k - f)]

-----------------------------------------------------------------------------
(* Silent step: hibernating demes are skipped when their turn comes        *)
\* (flags do not change during a metaepoch, so all sleeping demes can be dropped from the queue at once; the order in
\* which the awake demes of a metaepoch get their turn is not fixed by any property: the design model serves them in the
\* code's order, the trace specification accepts any order)
Norm(st) == IF st.pc = "meta" /\ st.cur = NoDeme
            THEN [st EXCEPT !.queue = SelectSeq(@, LAMBDA d : ~Asleep(st, d))]
            ELSE st

(* ---- initial population of a freshly constructed deme ----------------- *)
EnChildInit(st, c)    == st.pc \in {"init", "loop"} /\ st.pendingInit # <<>> /\ Head(st.pendingInit) = c
DoChildInit(st, c, k) == [Account(st, c, k) EXCEPT !.pendingInit = Tail(@),
                                    !.pc = IF st.pc = "init" /\ Len(st.pendingInit) = 1 THEN "loop" ELSE @]

(* ---- run(): consult at the loop head, begin the step ------------------- *)
EnLoopCheck(st) == st.pc = "loop" /\ st.pendingInit = <<>>
DoLoopCheck(st, v) ==
    IF v THEN [st EXCEPT !.pc = "done", !.gscSeen = TRUE, !.gscAt = IF @ = -1 THEN st.steps ELSE @]
    ELSE Norm([st EXCEPT !.pc = "meta", !.mc = @ + 1, !.steps = @ + 1,
                         !.queue = Reverse(ActiveSeq(st)), !.cur = NoDeme, !.gen = 0, !.await = "-",
                         !.D0 = st.D, !.stepCalls = 0])

(* ---- the next awake deme starts its metaepoch -------------------------- *)
EnBegin(st, d) == st.pc = "meta" /\ st.cur = NoDeme /\ st.queue # <<>> /\ Head(st.queue) = d
DoBegin(st, d) == [st EXCEPT !.cur = d, !.queue = SelectSeq(@, LAMBDA x : x # d), !.gen = 0, !.await = "-"]
\* trace validation: d gets its turn wherever it stands in the queue
EnBeginAny(st, d) == st.pc = "meta" /\ st.cur = NoDeme /\ \E i \in DOMAIN st.queue : st.queue[i] = d

Wound(st, d) == IF st.gscSeen THEN [st.wind EXCEPT ![d] = @ + 1] ELSE st.wind

(* ---- one engine iteration: k objective evaluations --------------------- *)
EnIter(st, d) == /\ st.pc = "meta" /\ st.cur = d /\ st.await = "-"
                 /\ Eng(st, d) \in PopEngines \cup ShotEngines
                 /\ st.gen < GensOf(st, d)
DoIter(st, d, k) ==
    IF Eng(st, d) \in ShotEngines
    THEN \* the sample is appended to the history at once (lhs_deme.py:27), then the conditions are consulted
         [Account(st, d, k) EXCEPT !.D[d].me = @ + 1, !.D[d].gens = Append(@, 1),
                    !.gen = @ + 1, !.await = "gsc", !.wind = Wound(st, d), !.stepCalls = @ + k]
    ELSE [Account(st, d, k) EXCEPT !.gen = @ + 1, !.await = "gsc", !.wind = Wound(st, d),
                    !.stepCalls = @ + k]

(* ---- the consult after the iteration; selfStop: CMA-ES' own criterion --- *)
EnGenGsc(st, d) == st.pc = "meta" /\ st.cur = d /\ st.await = "gsc"
Commit(st, d)   == IF Eng(st, d) \in ShotEngines THEN st
                   ELSE [st EXCEPT !.D[d].me = @ + 1, !.D[d].gens = Append(@, st.gen)]
DoGenGsc(st, d, v, selfStop) ==
    IF v \/ selfStop
    THEN Norm([Commit(st, d) EXCEPT !.D[d].active = FALSE, !.D[d].why = IF v THEN "gsc" ELSE "self",
                                    !.cur = NoDeme, !.await = "-", !.gscSeen = @ \/ v,
                                    !.gscAt = IF v /\ @ = -1 THEN st.steps ELSE @])
    ELSE IF st.gen < GensOf(st, d)
         THEN [st EXCEPT !.await = "-"]
         ELSE [Commit(st, d) EXCEPT !.await = "lsc"]

(* ---- the local stop condition at the end of the deme's metaepoch ------- *)
EnLsc(st, d) == st.pc = "meta" /\ st.cur = d /\ st.await = "lsc"
DoLsc(st, d, v, selfStop) ==
    Norm([st EXCEPT !.D[d].active = ~(v \/ selfStop),
                    !.D[d].why = IF v THEN "lsc" ELSE IF selfStop THEN "self" ELSE @,
                    !.cur = NoDeme, !.await = "-"])

(* ---- local deme: one complete search, no consult ----------------------- *)
EnLocalRun(st, d) == EnBegin(st, d) /\ Eng(st, d) = "LOCAL"
DoLocalRun(st, d, k) ==
    Norm([Account(st, d, k) EXCEPT !.queue = SelectSeq(@, LAMBDA x : x # d), !.D[d].me = @ + 1, !.D[d].gens = Append(@, 1),
                    !.D[d].active = FALSE, !.D[d].why = "self", !.wind = Wound(st, d), !.stepCalls = @ + k])

(* ---- run_step(): consult after the metaepoch ---------------------------- *)
EnPostGsc(st) == st.pc = "meta" /\ st.cur = NoDeme /\ st.queue = <<>>
DoPostGsc(st, v) == IF v THEN [st EXCEPT !.pc = "loop", !.gscSeen = TRUE, !.gscAt = IF @ = -1 THEN st.steps ELSE @]
                    ELSE [st EXCEPT !.pc = "sprout"]

(* ---- one sprouting round.  S: sequence of <<parent id, n>> in the order  *)
(* the mechanism returned them; children are created parent by parent      *)
(* (tree.py:176-202), ids from the size of the target level (204-212),     *)
(* then the hibernation flags of the demes that took part are recomputed.  *)
RECURSIVE AddKids(_, _, _)
AddKids(st, p, n) ==
    IF n = 0 THEN st
    ELSE LET tl == Lvl(st, p) + 1
             c  == ChildId(p, Len(st.L[tl + 1]))
         IN AddKids([st EXCEPT !.D = [x \in DOMAIN st.D \cup {c} |->
                                         IF x = c THEN NewDeme(tl, p, st.mc) ELSE st.D[x]],
                               !.L[tl + 1] = Append(@, c),
                               !.wind = [x \in DOMAIN st.wind \cup {c} |-> IF x = c THEN 0 ELSE st.wind[x]],
                               !.pendingInit = Append(@, c),
                               !.roundNew = @ \cup {c}], p, n - 1)

RECURSIVE AddAll(_, _)
AddAll(st, S) == IF S = <<>> THEN st ELSE AddAll(AddKids(st, Head(S)[1], Head(S)[2]), Tail(S))

EnSprout(st) == st.pc = "sprout"
ValidRound(st, S) ==
    /\ \A i \in DOMAIN S : S[i][1] \in Ids(st) /\ S[i][2] >= 1 /\ ~IsLeafLevel(st, Lvl(st, S[i][1]))
    /\ \A i, j \in DOMAIN S : i # j => S[i][1] # S[j][1]
WithinLimit(st, S) ==
    st.cfg.limit = NoLimit \/
    \A l \in 1..(NLevels(st) - 1) :
        Sum([i \in DOMAIN S |-> IF Lvl(st, S[i][1]) = l - 1 THEN S[i][2] ELSE 0], DOMAIN S)
            <= st.cfg.limit - Cardinality(ActiveOn(st, l))
DoSprout(st, S) ==
    LET part == ActiveNonLeaves(st)                       \* existed and were active when the round began
        from == {S[i][1] : i \in DOMAIN S}
        s1   == AddAll([st EXCEPT !.roundNew = {}], S)
    IN [s1 EXCEPT !.pc = "loop", !.roundPart = part, !.roundFrom = from, !.rounds = @ + 1,
                  !.D = [d \in DOMAIN s1.D |->
                           IF HibOn(st) /\ d \in part THEN [s1.D[d] EXCEPT !.hib = d \notin from] ELSE s1.D[d]]]

-----------------------------------------------------------------------------
(* Evaluations per iteration / construction, as the engines define them    *)
PopOf(st, l)     == LCfg(st, l).pop
InitEvalSet(st, c) ==
    LET e == Eng(st, c) IN
    IF e = "LOCAL" THEN {0} ELSE {PopOf(st, Lvl(st, c))}      \* CMA: pop = lambda
IterEvalSet(st, d) ==
    LET e == Eng(st, d)  p == PopOf(st, Lvl(st, d)) IN
    IF e \in {"CMA", "LHS", "SOBOL"} THEN {p} ELSE 1..p

-----------------------------------------------------------------------------
(***************************************************************************)
(* Clause operators: the content of the listed properties on the abstract  *)
(* state.  They are INVARIANTs / action PROPERTYs of the design model      *)
(* (HMSModel.tla) and are evaluated after every event of every recorded    *)
(* trace (HMSTrace.tla).  Each cites the sentence of the property.         *)
(***************************************************************************)
Pos(seq, x) == CHOOSE i \in DOMAIN seq : seq[i] = x

\* C07 "one root with id 'root' at level 0, every other deme has exactly one parent one level above ...,
\*      ids are unique, nothing exists below the last configured level, start metaepochs are consistent"
C07_Structure(st) ==
    /\ RootId \in Ids(st) /\ st.D[RootId].lvl = 0 /\ st.D[RootId].parent = NoDeme
    /\ st.L[1] = <<RootId>>
    /\ Len(st.L) = NLevels(st)
    /\ \A d \in Ids(st) :
         /\ st.D[d].lvl \in 0..(NLevels(st) - 1)
         /\ \E i \in DOMAIN st.L[st.D[d].lvl + 1] : st.L[st.D[d].lvl + 1][i] = d
         /\ st.D[d].startedAt >= 0 /\ st.D[d].startedAt <= st.mc
         /\ d # RootId => /\ st.D[d].parent \in Ids(st)
                          /\ st.D[st.D[d].parent].lvl = st.D[d].lvl - 1
                          /\ st.D[d].startedAt >= st.D[st.D[d].parent].startedAt
    /\ \A l \in 1..NLevels(st) :
         /\ \A i, j \in DOMAIN st.L[l] : i # j => st.L[l][i] # st.L[l][j]
         /\ \A i \in DOMAIN st.L[l] : st.L[l][i] \in Ids(st) /\ st.D[st.L[l][i]].lvl = l - 1
\* tree.py:204-212: the id of a child is derived from its parent's id and its index on the target level
C07_IdLaw(st) ==
    \A d \in Ids(st) \ {RootId} :
        st.D[d].parent \in Ids(st) =>
            d = ChildId(st.D[d].parent, Pos(st.L[st.D[d].lvl + 1], d) - 1)

\* C08 "the number of simultaneously active demes on any non-root level never exceeds L at any moment"
C08_ActiveWithinLimit(st) ==
    st.cfg.limit = NoLimit \/ \A l \in 1..(NLevels(st) - 1) : Cardinality(ActiveOn(st, l)) <= st.cfg.limit
\* C08 "a sprouting round never creates more demes on a level than L minus the number of demes active there"
C08_RoundWithinFreeSlots(st, st2) ==
    st.cfg.limit = NoLimit \/
    \A l \in 1..(NLevels(st) - 1) :
        Cardinality({d \in Ids(st2) \ Ids(st) : st2.D[d].lvl = l}) <=
            IF st.cfg.limit - Cardinality(ActiveOn(st, l)) > 0 THEN st.cfg.limit - Cardinality(ActiveOn(st, l)) ELSE 0

\* C03 "an evaluation budget is hard: ... never invoke the underlying objective more than N times"
C03_BudgetHard(st) == Budget(st) = NoLimit \/ st.fwd <= Budget(st)
\* C03 "the tree's total equals the sum over its demes and equals the number of times the objective was actually
\*      invoked ... as long as no evaluation-cutoff wrapper has started refusing evaluations"
C03_TotalEqualsCalls(st) == st.refused = 0 => TotalEvals(st) = st.fwd
\* every request is either forwarded or refused; the budget wrapper refuses only when it is exhausted
C03_RequestsSplit(st) == /\ TotalEvals(st) = st.fwd + st.refused
                         /\ st.refused > 0 => Budget(st) # NoLimit /\ st.fwd = Budget(st)

\* C05 "from the moment the condition is first observed true ... each still-active deme performs at most
\*      one further engine iteration (one generation, or one complete local search)"
C05_WindDownAtMostOne(st) == \A d \in DOMAIN st.wind : st.wind[d] <= 1
\* C05 "run() ... returns at the first metaepoch boundary where it does [hold]"
C05_DoneImpliesGsc(st) == st.pc = "done" => st.gscSeen /\ (GscModelled(st) => GscVal(st))
\* C05 "leaving the metaepoch counter equal to the number of metaepochs performed
\*      (exactly n for MetaepochLimit(n), zero for DontRun)"
C05_CounterEqualsPerformed(st) ==
    /\ st.mc = st.steps
    /\ st.pc = "done" /\ st.cfg.gsc = "MetaepochLimit" => st.mc = st.cfg.gscn
    /\ st.pc = "done" /\ st.cfg.gsc = "DontRun" => st.mc = 0
\* C05 "no new deme is sprouted" once the condition was observed true
C05_NoSproutAfterGsc(st, st2) == st.gscSeen => Ids(st2) = Ids(st)

AwakeAtStart(st, d)  == st.D0[d].active /\ ~(HibOn(st) /\ st.D0[d].hib)
AsleepAtStart(st, d) == st.D0[d].active /\ HibOn(st) /\ st.D0[d].hib
\* C06 "during a metaepoch every deme that is active (and not hibernating) advances by exactly one
\*      metaepoch" - evaluated when the metaepoch is complete
C06_SteppedExactlyOnce(st) ==
    EnPostGsc(st) =>
        /\ Ids(st) = DOMAIN st.D0
        /\ \A d \in DOMAIN st.D0 :
             IF AwakeAtStart(st, d) THEN st.D[d].me = st.D0[d].me + 1
             ELSE st.D[d].me = st.D0[d].me /\ st.D[d].evals = st.D0[d].evals
\* C06 "a freshly sprouted deme first runs in the following metaepoch": no deme has run more metaepochs than
\*      have begun since it was created (so none in the metaepoch whose round created it)
C06_NewbornHasNotRun(st) == \A d \in Ids(st) : st.D[d].me <= st.mc - st.D[d].startedAt
\* C06 "once inactive it is never reactivated, never evaluates the objective again and its history never changes"
C06_InactiveFrozen(st, st2) == \A d \in Ids(st) : ~st.D[d].active => d \in Ids(st2) /\ st2.D[d] = st.D[d]
\* C06 "a deme becomes inactive exactly when its local stop condition holds at the end of its metaepoch,
\*      the global stop condition holds, or its engine terminates itself (CMA-ES internal stop, one-shot local search)"
C06_StopCauses(st, st2) ==
    \A d \in Ids(st) : st.D[d].active /\ d \in Ids(st2) /\ ~st2.D[d].active =>
        /\ st2.D[d].why \in {"gsc", "lsc", "self"}
        /\ st2.D[d].why = "self" => Eng(st, d) \in {"CMA", "LOCAL"}

\* C18 "an active non-leaf deme is hibernating exactly when the most recent sprouting round it took part in
\*      took no sprout from it - a deme created by a round starts awake"
C18_HibIffNoSproutInLastRound(st) ==
    HibOn(st) =>
        \A d \in Ids(st) :
            /\ d \in st.roundPart /\ d \in ActiveNonLeaves(st) => (st.D[d].hib <=> d \notin st.roundFrom)
            /\ d \in st.roundNew => ~st.D[d].hib
            /\ st.rounds = 0 => ~st.D[d].hib
\* C18 "with hibernation disabled no deme ever hibernates"
C18_OffMeansNever(st) == ~HibOn(st) => \A d \in Ids(st) : ~st.D[d].hib
\* C18 "a hibernating deme performs no objective evaluations and its history does not change"
C18_AsleepMeansFrozen(st) ==
    EnPostGsc(st) => \A d \in DOMAIN st.D0 : AsleepAtStart(st, d) =>
        st.D[d].evals = st.D0[d].evals /\ st.D[d].me = st.D0[d].me /\ st.D[d].gens = st.D0[d].gens
\* C18 "while the global stop condition is false and some deme is still active, a metaepoch never passes
\*      without at least one objective evaluation"  (pc = "sprout": the post-metaepoch consult said FALSE)
IdleMetaepoch(st)        == st.pc = "sprout" /\ (\E d \in DOMAIN st.D0 : st.D0[d].active) /\ st.stepCalls = 0
AllActiveWereAsleep(st)  == \A d \in DOMAIN st.D0 : st.D0[d].active => AsleepAtStart(st, d)
\* every awake active deme did run its metaepoch, and all of them are engines that re-use the fitness of an
\* unchanged genome (population.py:22-25, de.py:34-39): a population collapsed to float precision evaluates nothing
AllAwakeRanWithoutChange(st) ==
    /\ \E d \in DOMAIN st.D0 : AwakeAtStart(st, d)
    /\ \A d \in DOMAIN st.D0 : AwakeAtStart(st, d) =>
          /\ d \in Ids(st) /\ st.D[d].me = st.D0[d].me + 1
          /\ Eng(st, d) \in {"SEA", "DE", "SHADE"}
C18_NoIdleMetaepoch(st)  == ~IdleMetaepoch(st)
\* the same, except for the idle metaepochs of known finding KF-C18-stall (every active deme was asleep)
C18_NoIdleUnlessAllAsleep(st) == IdleMetaepoch(st) => AllActiveWereAsleep(st)

-----------------------------------------------------------------------------
(* Beyond the listed properties: the deme's own clock and the adaptive     *)
(* mutation schedule (abstract_deme.py:110-127, ea_deme.py:60-64).         *)
Clock(st, d)        == st.D[d].startedAt + st.D[d].me            \* current_iteration
KidStarts(st, d)    == {st.D[c].startedAt : c \in Kids(st, d)}
SinceSproutRaw(st, d) == IF Kids(st, d) = {} THEN 0 ELSE Clock(st, d) - Max(KidStarts(st, d))
SinceSprout(st, d)  == IF SinceSproutRaw(st, d) < 0 THEN 0 ELSE SinceSproutRaw(st, d)   \* clamped (fix 7ee42ca)
AtBoundary(st)      == st.pc = "loop" /\ st.pendingInit = <<>>
\* no deme's clock runs ahead of the tree's metaepoch counter
G_ClockNotAhead(st) == \A d \in Ids(st) : Clock(st, d) <= st.mc
\* without hibernation an active deme's clock equals the tree's metaepoch counter at every boundary ...
G_ClockInSync(st)   == AtBoundary(st) /\ ~HibOn(st) => \A d \in Ids(st) : st.D[d].active => Clock(st, d) = st.mc
\* ... and therefore the raw distance to the last sprout is never negative (it can be with hibernation: a deme
\* that slept lags behind the start metaepochs of its later children - the defect repaired by 7ee42ca)
G_SinceSproutRawNonNeg(st) == ~HibOn(st) => \A d \in Ids(st) : st.D[d].active => SinceSproutRaw(st, d) >= 0
\* Caller-driven stepping (run_step() called on although the global condition holds): one complete step after the
\* condition was first observed true, every deme that is not asleep has stopped - and nothing was sprouted meanwhile
\* (C05_NoSproutAfterGsc); a hibernating deme is never run and therefore never stops.
G_WoundDownOneStepLater(st) ==
    st.gscSeen /\ AtBoundary(st) /\ st.steps >= st.gscAt + 1 => \A d \in Ids(st) : st.D[d].active => Asleep(st, d)
G_SinceSproutBounded(st)   == \A d \in Ids(st) : SinceSprout(st, d) >= 0 /\ SinceSprout(st, d) <= st.D[d].me

=============================================================================
