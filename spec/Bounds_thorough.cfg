SPECIFICATION Spec
CONSTANTS
  Los <- TLos
  His <- THis
  Span = 4
INVARIANT LandsInBox
INVARIANT IdentityInside
INVARIANT ClipNearestFace
INVARIANT ReflectCongruent
INVARIANT ToroidalCongruent
INVARIANT Determined
POSTCONDITION WriteTable
CHECK_DEADLOCK FALSE
