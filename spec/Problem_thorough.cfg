SPECIFICATION Spec
CONSTANTS
  MaxDepth = 4
  MaxCalls = 4
  MaxCut = 3
INVARIANT Transparent
INVARIANT WorstOnlyFromCutoff
INVARIANT CountLaw
INVARIANT BaseLaw
INVARIANT BudgetHard
INVARIANT CutoffPrefix
INVARIANT PrecisionFirstHit
PROPERTY Sticky
PROPERTY CountersNeverDecrease
POSTCONDITION WriteTable
CHECK_DEADLOCK FALSE
