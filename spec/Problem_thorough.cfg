SPECIFICATION Spec
CONSTANTS
  MaxDepth = 4
  MaxCalls = 4
  MaxDirectDepth = 2
  DirectCalls = 4
  MaxCut = 3
INVARIANT Transparent
INVARIANT WorstOnlyFromCutoff
INVARIANT CountLaw
INVARIANT BaseLaw
INVARIANT BudgetHard
INVARIANT CutoffPrefix
INVARIANT CutoffOwnBudget
INVARIANT PrecisionFirstHit
PROPERTY Sticky
PROPERTY CountersNeverDecrease
POSTCONDITION WriteTable
CHECK_DEADLOCK FALSE
