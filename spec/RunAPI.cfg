SPECIFICATION Spec
CHECK_DEADLOCK FALSE
