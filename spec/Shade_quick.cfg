SPECIFICATION Spec
CONSTANTS
  H = 3
  N = 4
  MaxGen = 9
INVARIANT TypeOK
INVARIANT ArchBounded
INVARIANT RoundRobin
INVARIANT RingEven
INVARIANT NoLostWrite
CHECK_DEADLOCK FALSE
