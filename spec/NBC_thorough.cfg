SPECIFICATION Spec
CONSTANTS
  MaxN = 5
  MaxPos = 6
  Grid = 2
  MaxN2 = 4
INVARIANT BestIsSeed
INVARIANT SeedsAreKept
INVARIANT ScaleTranslateInvariant
INVARIANT MirrorInvariant
INVARIANT FactorMonotone
POSTCONDITION WriteTables
CHECK_DEADLOCK FALSE
