SPECIFICATION Spec
CONSTANTS
  MaxPos = 7
  Size = 6
  TopK = 3
INVARIANT BestFirst
INVARIANT NoDuplicates
INVARIANT SubsetOfInput
POSTCONDITION WriteTable
CHECK_DEADLOCK FALSE
