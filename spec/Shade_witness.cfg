SPECIFICATION Spec
CONSTANTS
  H = 3
  N = 4
  MaxGen = 9
INVARIANT W_Wraps
INVARIANT W_ArchFull
CHECK_DEADLOCK FALSE
