------------------------------- MODULE Voting -------------------------------
(***************************************************************************)
(* Beyond the listed properties: the multiwinner voting rules used by MWEA *)
(* (pyhms/demes/single_pop_eas/multiwinner.py:66-145) on preference        *)
(* profiles.  A profile is a sequence of rankings (voter -> sequence of    *)
(* candidates, best first).  Where ties leave a choice the rule is a       *)
(* relation (set of acceptable committees).                                *)
(***************************************************************************)
EXTENDS Integers, Sequences, FiniteSets, TLC, Json, IOUtils, SequencesExt, FiniteSetsExt

CONSTANTS NCand, NVoters

Cands  == 1..NCand
Perms  == {p \in [1..NCand -> Cands] : \A a, b \in 1..NCand : a # b => p[a] # p[b]}
Profiles == [1..NVoters -> Perms]

Pos(r, c) == CHOOSE i \in 1..NCand : r[i] = c          \* 1-based position of c in ranking r
Count(S)  == Cardinality(S)

Plurality(P, c)   == Count({v \in DOMAIN P : P[v][1] = c})
Approval(P, c, k) == Count({v \in DOMAIN P : Pos(P[v], c) <= k})
Borda(P, c)       == FoldSet(LAMBDA v, acc : acc + (NCand - (Pos(P[v], c) - 1)), 0, DOMAIN P)

\* best m candidates of U by score: any m-subset such that no excluded one scores strictly higher than an included one
TopBy(U, m, score(_)) == {W \in SUBSET U : Count(W) = m /\ \A x \in U \ W : \A w \in W : score(x) <= score(w)}
Min2(a, b) == IF a < b THEN a ELSE b

\* SNTV: the k candidates ranked first most often (only candidates that are somebody's first choice can win)
SNTV(P, k) == LET U == {c \in Cands : Plurality(P, c) > 0} IN TopBy(U, Min2(k, Count(U)), LAMBDA c : Plurality(P, c))
\* Bloc: the k candidates with the highest k-approval scores
Bloc(P, k) == LET U == {c \in Cands : Approval(P, c, k) > 0} IN TopBy(U, Min2(k, Count(U)), LAMBDA c : Approval(P, c, k))
\* k-Borda
KBorda(P, k) == TopBy(Cands, k, LAMBDA c : Borda(P, c))

\* Chamberlin-Courant, greedy (Lu & Boutilier): each voter is represented by her best committee member
Repr(P, v, W)  == Max({NCand - (Pos(P[v], w) - 1) : w \in W})
CCScore(P, W)  == FoldSet(LAMBDA v, acc : acc + Repr(P, v, W), 0, DOMAIN P)
RECURSIVE CCGreedy(_, _, _)
\* set of committees the greedy rule can reach (ties: any maximiser)
CCGreedy(P, W, k) ==
    IF k = 0 THEN {W}
    ELSE LET best == Max({CCScore(P, W \cup {c}) : c \in Cands \ W}) IN
         UNION {CCGreedy(P, W \cup {c}, k - 1) : c \in {x \in Cands \ W : CCScore(P, W \cup {x}) = best}}

-----------------------------------------------------------------------------
VARIABLES P, k
Init == P \in Profiles /\ k \in 1..(NCand - 1)
Next == UNCHANGED <<P, k>>
Spec == Init /\ [][Next]_<<P, k>>

\* sanity laws of the definitions
CommitteeSizes == /\ \A W \in KBorda(P, k) : Count(W) = k
                  /\ \A W \in CCGreedy(P, {}, k) : Count(W) = k
                  /\ \A W \in SNTV(P, k) : Count(W) <= k
UnanimousWinner == (\E c \in Cands : \A v \in DOMAIN P : P[v][1] = c) =>
                      \A W \in SNTV(P, k) \cup KBorda(P, k) \cup CCGreedy(P, {}, k) : (CHOOSE c \in Cands : \A v \in DOMAIN P : P[v][1] = c) \in W
\* the greedy CC committee of size 1 is a Borda winner
CC1IsBorda == CCGreedy(P, {}, 1) = KBorda(P, 1)

Row(pp, kk) == [profile |-> pp, k |-> kk,
                sntv |-> SetToSeq({SetToSeq(W) : W \in SNTV(pp, kk)}), bloc |-> SetToSeq({SetToSeq(W) : W \in Bloc(pp, kk)}),
                borda |-> SetToSeq({SetToSeq(W) : W \in KBorda(pp, kk)}), cc |-> SetToSeq({SetToSeq(W) : W \in CCGreedy(pp, {}, kk)})]
WriteTable == ndJsonSerialize(IOEnv.VERIF_OUT, SetToSeq({Row(pp, kk) : pp \in Profiles, kk \in 1..(NCand - 1)}))
=============================================================================
