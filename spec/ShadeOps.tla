------------------------------ MODULE ShadeOps ------------------------------
(* The transition functions of Shade.tla with the memory size as an argument: shared by the design model (constant H)  *)
(* and the trace specification (H read from each recorded trace).                                                     *)
EXTENDS Integers
ArchAfterH(h, a, s) == IF s = 0 THEN a ELSE IF a + s > h THEN h ELSE a + s
KAfterH(h, kk, s)   == IF s = 0 THEN kk ELSE (kk + 1) % h
Written(kk, s)      == IF s = 0 THEN {} ELSE {kk}
=============================================================================
