--------------------------- MODULE LevelLimitInd ---------------------------
(***************************************************************************)
(* C08, design argument for an UNBOUNDED level limit L (Apalache):         *)
(* counter abstraction of one non-root level.  `active` demes on the       *)
(* level; a local/global stop condition or an engine may stop one at any   *)
(* time (Stop); a sprouting round filtered by LevelLimit creates k new     *)
(* demes with k <= max(0, L - active) (Sprout).  IndInv is inductive, so   *)
(* `active <= L` holds for every L >= 1 and every interleaving.            *)
(* Checked with:  apalache-mc check --cinit=CInit --init=IndInit           *)
(*                --inv=IndInv --length=1 LevelLimitInd.tla   (and Init)   *)
(***************************************************************************)
EXTENDS Integers

CONSTANT
    \* @type: Int;
    L

VARIABLES
    \* @type: Int;
    active,
    \* @type: Int;
    created

CInit == L \in Int /\ L >= 1

Init == active = 0 /\ created = 0

Stop == /\ active > 0
        /\ active' = active - 1
        /\ created' = 0

Sprout == \E k \in Int :
            /\ k >= 0
            /\ k <= (IF L - active > 0 THEN L - active ELSE 0)
            /\ active' = active + k
            /\ created' = k

Next == Stop \/ Sprout

IndInv == /\ active >= 0 /\ active <= L
          /\ created >= 0 /\ created <= L

IndInit == active \in Int /\ created \in Int /\ IndInv
=============================================================================
