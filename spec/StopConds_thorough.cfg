SPECIFICATION Spec
CONSTANTS
  MaxMe = 3
  MaxFit = 2
INVARIANT ShiftInvariant
INVARIANT ScaleCovariant
INVARIANT DevMonotone
INVARIANT NeverBeforeN
INVARIANT ConstantIsSteady
POSTCONDITION WriteTable
CHECK_DEADLOCK FALSE
