---------------------------- MODULE ShadeTrace ----------------------------
(***************************************************************************)
(* Recorded generations of real SHADE objects (harness/shade_growth.py)    *)
(* checked against Shade.tla: one TLC state per recorded call of run().    *)
(* Each event logs the observed state before and after the call:           *)
(*   k0, a0, k1, a1   memory index / archive size                          *)
(*   s                number of replaced parents (the mask handed to       *)
(*                    _update_memory; 0 when it was not called)            *)
(*   wf, wcr          cells of m_f / m_cr whose value changed              *)
(*   fok, crok        every m_f in (0, 1], every m_cr in [0, 1]            *)
(*   n1               size of the returned population                      *)
(* The state of the model is compared with the observation and then        *)
(* adopted (non-halting), failures accumulate in `viol`.                   *)
(***************************************************************************)
EXTENDS ShadeOps, Sequences, FiniteSets, TLC, Json, IOUtils, SequencesExt

AllTraces == JsonDeserialize(IOEnv.VERIF_TRACES)
NTraces   == Len(AllTraces)

VARIABLES tid, l, k, arch, viol
tvars == <<tid, l, k, arch, viol>>

Tr == AllTraces[tid].events
HH == AllTraces[tid].H
NN == AllTraces[tid].N


Init == tid \in 1..NTraces /\ l = 1 /\ k = 0 /\ arch = 0 /\ viol = {}

Clauses(e) ==
       (IF e.k0 # k \/ e.a0 # arch THEN {"Shade_StateCarriedOver"} ELSE {})
  \cup (IF e.s \notin 0..NN THEN {"Shade_SuccessCount"} ELSE {})
  \cup (IF e.k1 # KAfterH(HH, e.k0, e.s) THEN {"Shade_IndexRoundRobin"} ELSE {})
  \cup (IF e.k1 \notin 0..(HH - 1) THEN {"Shade_IndexInRange"} ELSE {})
  \cup (IF e.a1 # ArchAfterH(HH, e.a0, e.s) THEN {"Shade_ArchiveSize"} ELSE {})
  \cup (IF e.a1 > HH THEN {"Shade_ArchiveBounded"} ELSE {})
  \cup (IF ~(ToSet(e.wf) \subseteq Written(e.k0, e.s)) THEN {"Shade_OnlyCurrentCellWritten"} ELSE {})
  \cup (IF ~(ToSet(e.wcr) \subseteq Written(e.k0, e.s)) THEN {"Shade_OnlyCurrentCellWritten"} ELSE {})
  \cup (IF e.fok # 1 THEN {"Shade_MemoryFInRange"} ELSE {})
  \cup (IF e.crok # 1 THEN {"Shade_MemoryCrInRange"} ELSE {})
  \cup (IF e.n1 # NN THEN {"Shade_PopulationSize"} ELSE {})

Step ==
    /\ l <= Len(Tr)
    /\ LET e == Tr[l] IN
         /\ viol' = viol \cup {<<c, l>> : c \in Clauses(e)}
         /\ k' = e.k1 /\ arch' = e.a1
    /\ l' = l + 1
    /\ UNCHANGED tid

Finish ==
    /\ l = Len(Tr) + 1
    /\ PrintT(<<"TRACE", ToJson([tid |-> tid, name |-> AllTraces[tid].name, n |-> Len(Tr), viol |-> SetToSeq(viol)])>>)
    /\ l' = l + 1
    /\ UNCHANGED <<tid, k, arch, viol>>

Next == Step \/ Finish
Spec == Init /\ [][Next]_tvars
=============================================================================
