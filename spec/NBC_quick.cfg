SPECIFICATION Spec
CONSTANTS
  MaxN = 4
  MaxPos = 5
  Grid = 2
  MaxN2 = 3
INVARIANT BestIsSeed
INVARIANT SeedsAreKept
INVARIANT ScaleTranslateInvariant
INVARIANT MirrorInvariant
INVARIANT FactorMonotone
POSTCONDITION WriteTables
CHECK_DEADLOCK FALSE
