SPECIFICATION FairSpec
CONSTANTS
  Configs <- LiveConfigs
  MaxMeta = 9
  MaxDemes = 99
  MaxOffer = 2
  MaxLocal = 2
  AllowSelfStop = TRUE
  AllowManual = FALSE
  AllowVariants = FALSE
  ExactOffers = FALSE
  EmitScripts = FALSE
VIEW ViewSt
PROPERTY Termination
CHECK_DEADLOCK FALSE
