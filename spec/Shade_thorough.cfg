SPECIFICATION Spec
CONSTANTS
  H = 5
  N = 6
  MaxGen = 16
INVARIANT TypeOK
INVARIANT ArchBounded
INVARIANT RoundRobin
INVARIANT RingEven
INVARIANT NoLostWrite
CHECK_DEADLOCK FALSE
