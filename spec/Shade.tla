------------------------------ MODULE Shade ------------------------------
(***************************************************************************)
(* Beyond the listed properties: the success-history memory of SHADE       *)
(* (demes/single_pop_eas/de.py:147-213) as a state machine.                *)
(*                                                                         *)
(*   memory   H cells (m_cr, m_f), written round-robin at index k: one     *)
(*            cell per generation in which at least one trial replaced its *)
(*            parent, none otherwise                       (de.py:165-172) *)
(*   archive  the replaced parents are appended; when the archive exceeds  *)
(*            the *memory* size it is cut back to it - only in a           *)
(*            generation with a success                    (de.py:161-164, *)
(*            195-197)                                                     *)
(* One action = one call of SHADE.run(); s = number of replaced parents.   *)
(***************************************************************************)
EXTENDS ShadeOps, Sequences, FiniteSets, TLC

CONSTANTS H,        \* memory size
          N,        \* population size
          MaxGen

VARIABLES k,        \* next memory cell to be written
          arch,     \* archive size
          gen,      \* generations performed
          writes    \* writes[i] = number of times cell i has been written

vars == <<k, arch, gen, writes>>
Cells == 0..(H - 1)

Init == k = 0 /\ arch = 0 /\ gen = 0 /\ writes = [i \in Cells |-> 0]

ArchAfter(a, s) == ArchAfterH(H, a, s)
KAfter(kk, s)   == KAfterH(H, kk, s)

Generation(s) ==
    /\ gen < MaxGen
    /\ gen' = gen + 1
    /\ arch' = ArchAfter(arch, s)
    /\ k' = KAfter(k, s)
    /\ writes' = [i \in Cells |-> IF i \in Written(k, s) THEN writes[i] + 1 ELSE writes[i]]

Next == \E s \in 0..N : Generation(s)
Spec == Init /\ [][Next]_vars

TypeOK       == k \in Cells /\ arch \in 0..H /\ gen \in 0..MaxGen
ArchBounded  == arch <= H
\* the ring: cells before k have been written once more than the cells from k on
RoundRobin   == \A i, j \in Cells : (i < k /\ j >= k) => writes[i] = writes[j] + 1
RingEven     == \A i, j \in Cells : (i < k) = (j < k) => writes[i] = writes[j]
NoLostWrite  == LET total == [i \in Cells |-> writes[i]] IN
                \A i \in Cells : writes[i] <= gen
\* non-vacuity witnesses (expected to be violated)
W_Wraps      == ~(gen > 0 /\ k = 0 /\ writes[0] >= 2)
W_ArchFull   == ~(arch = H /\ gen < MaxGen)
=============================================================================
