SPECIFICATION Spec
CONSTANTS
  NCand = 3
  NVoters = 3
INVARIANT CommitteeSizes
INVARIANT UnanimousWinner
INVARIANT CC1IsBorda
POSTCONDITION WriteTable
CHECK_DEADLOCK FALSE
