-------------------------------- MODULE NBC --------------------------------
(***************************************************************************)
(* C15: the definition of nearest-better clustering, in integers.          *)
(*                                                                         *)
(* Code: pyhms/utils/clusterization.py:40-106 (NearestBetterClustering).   *)
(*                                                                         *)
(* A population is a set of individuals [p, r]: p a lattice point (an      *)
(* integer for the 1-D family, a pair for the 2-D family), r the goodness  *)
(* rank in the problem's own direction (0 best; equal rank = equal         *)
(* fitness).  Points are pairwise distinct.                                *)
(*                                                                         *)
(*   keep the best floor(n * t) individuals (ties at the cut: any choice   *)
(*   that never drops a strictly better individual for a kept one);        *)
(*   d(i) = distance to the nearest strictly better kept individual        *)
(*          (an individual tied with the best attaches to the best);       *)
(*   seeds = the best + every i with d(i) > factor * mean(d).              *)
(*                                                                         *)
(* 1-D distances are integers, the test d(i) * m * fd > fn * sum(d) is     *)
(* exact.  For the 2-D family the test is decided with integer square-root *)
(* brackets; rows whose test falls inside the bracket are marked undecided *)
(* and skipped by the replay (sound: never an alarm).                      *)
(***************************************************************************)
EXTENDS Integers, Sequences, FiniteSets, TLC, Json, IOUtils, SequencesExt, FiniteSetsExt

CONSTANTS MaxN,     \* population size 2..MaxN  (1-D family)
          MaxPos,   \* 1-D positions 0..MaxPos
          Grid,     \* 2-D points (0..Grid) x (0..Grid)
          MaxN2     \* population size 3..MaxN2 (2-D family)

Abs(x) == IF x < 0 THEN -x ELSE x
\* factors as <<num, den>>; truncation as <<num, den>> (dyadic so floor(n*t) is unambiguous)
Factors == {<<1, 1>>, <<3, 2>>, <<2, 1>>, <<3, 1>>}
Truncs  == {<<1, 2>>, <<3, 4>>, <<1, 1>>}
Keep(n, t) == (n * t[1]) \div t[2]

Better(a, b) == a.r < b.r
BestRank(P) == Min({i.r : i \in P})
TheBest(P)  == {i \in P : i.r = BestRank(P)}

\* acceptable truncations: m individuals, no dropped one strictly better than a kept one
Truncations(P, m) == {K \in SUBSET P : Cardinality(K) = m /\ \A d \in P \ K : \A k \in K : ~Better(d, k)}

\* the root of the spanning tree is one of the best-ranked individuals (the first in sorted order)
Roots(K) == TheBest(K)

\* strictly better individuals of i; an individual tied with the root attaches to the root
BetterOf(K, root, i) == IF i.r = root.r THEN {root} ELSE {j \in K : Better(j, i)}

-----------------------------------------------------------------------------
(* 1-D family                                                              *)
D1(a, b) == Abs(a.p - b.p)
NBD1(K, root, i) == Min({D1(i, j) : j \in BetterOf(K, root, i)})
SumOver(S, f(_)) == FoldSet(LAMBDA x, acc : acc + f(x), 0, S)
Seeds1(K, root, f) ==
    LET others == K \ {root}
        m   == Cardinality(others)
        tot == SumOver(others, LAMBDA i : NBD1(K, root, i))
    IN {root} \cup {i \in others : NBD1(K, root, i) * m * f[2] > f[1] * tot}

Pops1 == UNION { { {[p |-> q, r |-> rk[q]] : q \in ps} : rk \in [ps -> 0..2] } :
                 ps \in {X \in SUBSET (0..MaxPos) : Cardinality(X) \in 2..MaxN} }

Rows1 == { [fam |-> "nbc1", pts |-> SetToSeq(P), fn |-> f[1], fd |-> f[2], tn |-> t[1], td |-> t[2],
            ok |-> SetToSeq(UNION { { SetToSeq({i.p : i \in Seeds1(K, root, f)}) : root \in Roots(K) } :
                                 K \in Truncations(P, Keep(Cardinality(P), t)) }),
            eq |-> \E K \in Truncations(P, Keep(Cardinality(P), t)) : \E root \in Roots(K) : \E i \in K \ {root} :
                      NBD1(K, root, i) * Cardinality(K \ {root}) * f[2] = f[1] * SumOver(K \ {root}, LAMBDA j : NBD1(K, root, j)),
            dist |-> IF Cardinality(Truncations(P, Keep(Cardinality(P), t))) = 1
                        /\ Cardinality(Roots(CHOOSE K \in Truncations(P, Keep(Cardinality(P), t)) : TRUE)) = 1
                     THEN LET K == CHOOSE K \in Truncations(P, Keep(Cardinality(P), t)) : TRUE
                              root == CHOOSE x \in Roots(K) : TRUE
                          IN SetToSeq({<<i.p, NBD1(K, root, i)>> : i \in K \ {root}})
                     ELSE <<<<-1, -1>>>>] :
          P \in Pops1, f \in Factors, t \in {tt \in Truncs : TRUE} }

ValidRow(row) == (Len(row.pts) * row.tn) \div row.td >= 1

-----------------------------------------------------------------------------
(* 2-D family (distinct ranks, no truncation)                              *)
D2sq(a, b) == (a.p[1] - b.p[1]) * (a.p[1] - b.p[1]) + (a.p[2] - b.p[2]) * (a.p[2] - b.p[2])
RECURSIVE Bs(_, _, _)
Bs(lo, hi, k) == IF lo >= hi THEN lo
                 ELSE LET mid == (lo + hi + 1) \div 2 IN IF mid * mid <= k THEN Bs(mid, hi, k) ELSE Bs(lo, mid - 1, k)
ISqrt(k) == Bs(0, 4000, k)
\* sqrt(k) scaled by 1000, bracketed: Lo(k) <= 1000*sqrt(k) < Hi(k)   (exact when k is a perfect square)
Lo(k) == ISqrt(k * 1000000)
Hi(k) == IF Lo(k) * Lo(k) = k * 1000000 THEN Lo(k) ELSE Lo(k) + 1
NBD2sq(K, root, i) == Min({D2sq(i, j) : j \in BetterOf(K, root, i)})
\* decision for individual i: "yes" / "no" / "undecided"
Decide2(K, root, f, i) ==
    LET others == K \ {root}
        m     == Cardinality(others)
        lhsLo == Lo(NBD2sq(K, root, i)) * m * f[2]
        lhsHi == Hi(NBD2sq(K, root, i)) * m * f[2]
        rhsLo == f[1] * SumOver(others, LAMBDA j : Lo(NBD2sq(K, root, j)))
        rhsHi == f[1] * SumOver(others, LAMBDA j : Hi(NBD2sq(K, root, j)))
    IN IF lhsLo > rhsHi THEN "yes" ELSE IF lhsHi <= rhsLo THEN "no" ELSE "undecided"

GridPts == (0..Grid) \X (0..Grid)
Pops2 == UNION { { {[p |-> ps[k], r |-> k - 1] : k \in DOMAIN ps} : ps \in {s \in [1..n -> GridPts] : \A a, b \in 1..n : a # b => s[a] # s[b]} } :
                 n \in 3..MaxN2 }

Rows2 == { LET root == CHOOSE x \in P : x.r = 0
               dec  == [i \in P \ {root} |-> Decide2(P, root, f, i)]
           IN [fam |-> "nbc2", pts |-> SetToSeq(P), fn |-> f[1], fd |-> f[2], tn |-> 1, td |-> 1,
               decided |-> \A i \in P \ {root} : dec[i] # "undecided",
               ok |-> <<SetToSeq({root.p} \cup {i.p : i \in {x \in P \ {root} : dec[x] = "yes"}})>>,
               dist |-> SetToSeq({<<i.p, NBD2sq(P, root, i)>> : i \in P \ {root}})] :
           P \in Pops2, f \in Factors }

WriteTables == ndJsonSerialize(IOEnv.VERIF_OUT, SetToSeq({r \in Rows1 : ValidRow(r)}) \o SetToSeq(Rows2))

-----------------------------------------------------------------------------
(* Laws of the definition, checked by TLC over the 1-D family              *)
VARIABLES P, f, t
vars == <<P, f, t>>
Init == P \in Pops1 /\ f \in Factors /\ t \in Truncs
Next == UNCHANGED vars
Spec == Init /\ [][Next]_vars

Kept == Truncations(P, Keep(Cardinality(P), t))
Image(Q, a, b) == {[p |-> a * i.p + b, r |-> i.r] : i \in Q}        \* uniform scaling by a > 0 and translation by b
Results(Q) == UNION { { {i.p : i \in Seeds1(K, root, f)} : root \in Roots(K) } : K \in Truncations(Q, Keep(Cardinality(Q), t)) }

\* "the best one" is always a seed
BestIsSeed == Keep(Cardinality(P), t) >= 1 => \A K \in Kept : \A root \in Roots(K) : root \in Seeds1(K, root, f)
\* seeds are kept individuals; a strictly-better-than-everything cut never drops the best rank
SeedsAreKept == \A K \in Kept : \A root \in Roots(K) : Seeds1(K, root, f) \subseteq K /\ BestRank(K) = BestRank(P)
\* "does not depend on translating or uniformly scaling the genomes"
ScaleTranslateInvariant ==
    Keep(Cardinality(P), t) >= 1 =>
        Results(Image(P, 3, 7)) = {{3 * q + 7 : q \in S} : S \in Results(P)}
\* mirror image (reflection) keeps the result as well
MirrorInvariant ==
    Keep(Cardinality(P), t) >= 1 =>
        Results({[p |-> 50 - i.p, r |-> i.r] : i \in P}) = {{50 - q : q \in S} : S \in Results(P)}
\* a larger distance factor never adds seeds (same truncation, same root)
FactorMonotone ==
    \A K \in Kept : \A root \in Roots(K) :
        \A g \in Factors : g[1] * f[2] >= f[1] * g[2] => Seeds1(K, root, g) \subseteq Seeds1(K, root, f)
=============================================================================
