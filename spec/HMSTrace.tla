------------------------------ MODULE HMSTrace ------------------------------
(***************************************************************************)
(* Trace validation: recorded executions of the real library (one JSON     *)
(* array of traces, produced by harness/recorder.py) are replayed through  *)
(* the operators of HMS.tla.  One TLC state per recorded event.            *)
(*                                                                         *)
(* For every event                                                         *)
(*   Pre      executes the model steps that must have happened before the  *)
(*            observation point (silent skips, local searches, the engine  *)
(*            iteration, construction of new demes) - driven by the        *)
(*            recorder's ground truth (who evaluated how many points);     *)
(*   Compare  confronts the model state with the projection of the real   *)
(*            tree logged in the event, field by field; every mismatch     *)
(*            names the clause (and thereby the property) it violates;     *)
(*   Resync   adopts the observed projection, so that one failure never    *)
(*            leaves the rest of the trace unexamined;                     *)
(*   clauses  of HMS.tla and the data-plane clauses below are evaluated on *)
(*            the observed state;                                          *)
(*   Post     applies the effect of the observed verdict / round.          *)
(* Failures accumulate in `viol` (non-halting) and are printed per trace.  *)
(***************************************************************************)
EXTENDS HMS, Report, Json, IOUtils

AllTraces == JsonDeserialize(IOEnv.VERIF_TRACES)
NTraces   == Len(AllTraces)

VARIABLES tid,    \* which trace
          l,      \* next event (1-based)
          st,     \* HMS state
          mem,    \* data-plane memory (digests, last generations, bests, calls per iteration)
          viol    \* set of <<clause, event index, detail>>
vars == <<tid, l, st, mem, viol>>

Tr      == AllTraces[tid].events
Ev      == Tr[l]
HasSnap(e) == e.e \in {"start", "gsc", "lsc", "sprout", "end", "abort", "report", "dump", "retarget", "sethib"}

-----------------------------------------------------------------------------
(* Reading events                                                          *)
EngOfCls(c) == CASE c = "EADeme" -> "SEA" [] c = "DEDeme" -> "DE" [] c = "SHADEDeme" -> "SHADE"
                 [] c = "CMADeme" -> "CMA" [] c = "LocalDeme" -> "LOCAL" [] c = "LHSDeme" -> "LHS"
                 [] c = "SobolDeme" -> "SOBOL" [] OTHER -> "CUSTOM"

SnapIds(s)   == {s.demes[i].id : i \in DOMAIN s.demes}
SnapRec(s, d) == s.demes[CHOOSE i \in DOMAIN s.demes : s.demes[i].id = d]
\* a batch is <<deme id, level, calls, phase>>; phase "init": the deme was under construction, "run": its metaepoch
BatchCalls(B, d) == FoldSeq(LAMBDA b, acc : IF b[1] = d /\ b[4] = "run" THEN acc + Len(b[3]) ELSE acc, 0, B)
InitCalls(B, d)  == FoldSeq(LAMBDA b, acc : IF b[1] = d /\ b[4] = "init" THEN acc + Len(b[3]) ELSE acc, 0, B)
BatchDemes(B)    == {B[i][1] : i \in DOMAIN B}
BatchGids(B, d)  == UNION {{B[i][3][j][1] : j \in DOMAIN B[i][3]} : i \in {k \in DOMAIN B : B[k][1] = d /\ B[k][4] = "run"}}
AllCalls(B)      == UNION {{B[i][3][j] : j \in DOMAIN B[i][3]} : i \in DOMAIN B}

CfgOf(c) == [name |-> c.name, nlevels |-> c.nlevels,
             levels |-> [i \in DOMAIN c.levels |->
                            [eng |-> c.levels[i].eng, pop |-> c.levels[i].pop, gens |-> c.levels[i].gens,
                             lsc |-> c.levels[i].lsc, lscn |-> c.levels[i].lscn, elite |-> c.levels[i].elite,
                             variant |-> c.levels[i].variant, cls |-> c.levels[i].cls]],
             limit |-> c.limit, hib |-> c.hib, gsc |-> c.gsc, gscn |-> c.gscn, gscw |-> c.gscw,
             max |-> c.max, sprout |-> c.sprout, generator |-> c.generator, haslocal |-> c.haslocal, cutoff |-> c.cutoff,
             idlecheck |-> c.idlecheck, manual |-> c.manual, phases |-> c.phases, cache |-> c.cache, skipsame |-> c.skipsame, localmethod |-> IF c.sprout = "nbc_local" THEN 1 ELSE 0]

-----------------------------------------------------------------------------
(* Pre: model steps that precede the observation point.  Returns [st, errs] *)
R(s, e) == [st |-> s, errs |-> e]

SelfStopped(s, sn, d) == Eng(s, d) = "CMA" /\ d \in SnapIds(sn) /\ SnapRec(sn, d).act = 0
\* Local searches consult nothing: those that ran since the previous event are recognised by their objective calls (or,
\* when calls may be invisible - budget refusals, memoised values - by the observed tree showing them stopped).  The
\* order in which the demes of a metaepoch get their turn is not assumed.
RanSilently(s, B, sn, h) ==
    \/ /\ Eng(s, h) = "LOCAL" /\ s.D[h].active
       /\ \/ BatchCalls(B, h) > 0
          \/ ((s.cfg.cutoff = 1 \/ s.cfg.cache = 1) /\ h \in SnapIds(sn) /\ SnapRec(sn, h).act = 0)
    \/ /\ Eng(s, h) = "CMA" /\ s.D[h].active /\ SelfStopped(s, sn, h)
       /\ (BatchCalls(B, h) > 0 \/ s.cfg.cutoff = 1 \/ s.cfg.cache = 1)     \* (its evaluations may all have been refused / memoised)
\* Where and how often a deme consults the conditions inside its metaepoch is not fixed by any property (an engine that
\* has terminated itself need not ask anybody; the local condition may be asked before the global one, which is then asked
\* only if the deme would go on).  A turn the deme ended without the consults the model was waiting for is closed here:
\* evaluations made since the last event are a further iteration, the metaepoch is committed, and a deme that the observed
\* tree shows stopped has terminated itself - which only CMA-ES may (any other engine: C06_StopCauses on the snapshot).
CloseTurn(s, B, sn) ==
    LET d  == s.cur
        k  == BatchCalls(B, d)
        invisible == k = 0 /\ s.gen = 0 /\ (s.cfg.cutoff = 1 \/ s.cfg.cache = 1)      \* a first iteration without a visible call
        s1 == IF s.await = "-" /\ (k > 0 \/ invisible) /\ Eng(s, d) \in PopEngines \cup ShotEngines
              THEN (IF EnIter(s, d) THEN DoIter(s, d, k) ELSE [DoIter(s, d, k) EXCEPT !.gen = s.gen]) ELSE s
        s2 == IF s1.await = "gsc" \/ (s1.await = "-" /\ s1.gen > 0) THEN [Commit(s1, d) EXCEPT !.await = "lsc"] ELSE s1
    IN IF s2.await = "lsc" THEN DoLsc(s2, d, FALSE, SelfStopped(s2, sn, d)) ELSE s
CloseCur(s, e) ==
    IF s.pc = "meta" /\ s.cur # NoDeme /\ s.cur \in Ids(s) /\ "snap" \in DOMAIN e /\ "b" \in DOMAIN e
       /\ ~(e.e \in {"gsc", "lsc"} /\ "d" \in DOMAIN e /\ e.d = s.cur /\ (e.e = "lsc" \/ e.by = "deme"))
    THEN CloseTurn(s, e.b, e.snap) ELSE s

\* a whole turn without any consult: one-shot local searches, and a CMA-ES deme whose engine stopped at once
SilentTurn(s, B, sn, h) ==
    IF Eng(s, h) = "LOCAL" THEN DoLocalRun(s, h, BatchCalls(B, h))
    ELSE CloseTurn(DoBegin(s, h), B, sn)

RECURSIVE Advance(_, _, _, _, _)
Advance(s, B, sn, target, errs) ==
    IF s.pc # "meta" \/ s.cur # NoDeme \/ s.queue = <<>> THEN R(s, errs)
    ELSE LET ran == {i \in DOMAIN s.queue : s.queue[i] # target /\ RanSilently(s, B, sn, s.queue[i])} IN
         IF ran = {} THEN R(s, errs)
         ELSE LET h == s.queue[CHOOSE i \in ran : \A j \in ran : i <= j]
              IN Advance(SilentTurn(s, B, sn, h), B, sn, target, errs)

RECURSIVE InitAll(_, _)
InitAll(s, B) == IF s.pendingInit = <<>> THEN s
                 ELSE LET c == Head(s.pendingInit) IN InitAll(DoChildInit(s, c, InitCalls(B, c)), B)

RECURSIVE InitSeen(_, _, _)
InitSeen(s, B, sn) == IF s.pc \notin {"init", "loop"} \/ s.pendingInit = <<>> \/ Head(s.pendingInit) \notin SnapIds(sn) THEN s
                      ELSE LET c == Head(s.pendingInit) IN InitSeen(DoChildInit(s, c, InitCalls(B, c)), B, sn)

\* control position forced to the observation point when the model could not get there by itself
Force(s, e) ==
    CASE e.e = "gsc" /\ e.by = "deme" ->
           LET s1 == [s EXCEPT !.pc = "meta", !.cur = e.d, !.await = "gsc",
                               !.queue = SelectSeq(@, LAMBDA x : x # e.d),
                               !.gen = IF s.cur = e.d THEN @ ELSE 1]
           IN IF e.d \in Ids(s1)
              THEN [s1 EXCEPT !.D[e.d].evals = @ + BatchCalls(e.b, e.d), !.wind = Wound(s1, e.d),
                              !.stepCalls = @ + BatchCalls(e.b, e.d)]
              ELSE s1
      [] e.e = "lsc"  -> [s EXCEPT !.pc = "meta", !.cur = e.d, !.await = "lsc",
                                   !.queue = SelectSeq(@, LAMBDA x : x # e.d)]
      [] e.e = "gsc" /\ e.by = "step" -> [s EXCEPT !.pc = "meta", !.cur = NoDeme, !.queue = <<>>, !.await = "-"]
      [] e.e = "gsc" /\ e.by = "run"  -> [s EXCEPT !.pc = "loop", !.cur = NoDeme, !.queue = <<>>, !.await = "-",
                                                   !.pendingInit = <<>>]
      [] e.e = "sprout" -> [s EXCEPT !.pc = "sprout", !.cur = NoDeme, !.queue = <<>>, !.await = "-"]
      [] e.e \in {"end", "abort"} -> s
      [] OTHER -> s

\* A run that goes on without asking the global condition at the loop head (tree.py:128) is accepted as long as
\* no shipped condition holds at that boundary: "returns at the first metaepoch boundary where it does [hold]".
\* Manual driving (cfg.manual = 1: the caller invokes run_step() itself, possibly after run() has returned) is outside
\* the sentences of C05 about run(); every other clause keeps applying to what the tree does in those steps.
Manual(s) == s.cfg.manual = 1
ImplicitLoopHead(s, e) ==
    IF (s.pc \in {"loop", "sprout"} \/ (Manual(s) /\ s.pc = "done")) /\ e.e \in {"gsc", "lsc"} /\ (e.e = "lsc" \/ e.by \notin {"run", "other"})
    THEN LET s0 == IF s.pc \in {"sprout", "done"} THEN [s EXCEPT !.pc = "loop"] ELSE s
             s1 == InitAll(s0, e.b)
             \* tree.run_metaepoch() called by itself (cfg.phases): a metaepoch begins, the tree's counter does not move
             s2 == IF s.cfg.phases = 1 THEN [DoLoopCheck(s1, FALSE) EXCEPT !.mc = s1.mc] ELSE DoLoopCheck(s1, FALSE)
         \* (a condition the model cannot compute - a user-defined one - has been observed TRUE and never FALSE again: it
         \* holds at this boundary; scripted verdict sequences are free to fall back to FALSE)
         IN R(s2,
              IF ~Manual(s) /\ ((GscModelled(s1) /\ GscVal(s1)) \/ (~GscModelled(s1) /\ s1.gscSeen /\ s1.cfg.gsc # "Scripted"))
              THEN {"C05_ReturnsAtFirstBoundary"} ELSE {})
    ELSE R(s, {})

\* the deme asks the global condition once more after its metaepoch is complete (e.g. after its local condition said
\* FALSE): no evaluation, nothing moves; a TRUE verdict stops it (Post)
Trailing(s, e) ==
    /\ s.pc = "meta" /\ s.cur = NoDeme /\ e.d \in Ids(s) /\ e.d \in DOMAIN s.D0
    /\ ~(\E i \in DOMAIN s.queue : s.queue[i] = e.d)
    /\ s.D[e.d].me = s.D0[e.d].me + 1 /\ BatchCalls(e.b, e.d) = 0

PreAt(s, e) ==
    CASE e.e = "gsc" /\ e.by = "deme" ->
           LET a == Advance(s, e.b, e.snap, e.d, {})
               s1 == a.st
               s2a == IF s1.cur = NoDeme /\ EnBeginAny(s1, e.d) /\ e.d \in Ids(s1) /\ Eng(s1, e.d) # "LOCAL"
                      THEN DoBegin(s1, e.d) ELSE s1
               \* the deme consults the global condition again although the model has already closed its metaepoch
               \* after the configured number of generations: the number of generations per metaepoch is mechanism,
               \* not property - reopen the metaepoch and count the consult as a further iteration (informational)
               s2 == IF e.d \in Ids(s2a) /\ s2a.pc = "meta" /\ s2a.cur = e.d /\ s2a.await = "lsc"
                        /\ Eng(s2a, e.d) \in PopEngines /\ s2a.D[e.d].me > 0 /\ Len(s2a.D[e.d].gens) > 1
                     THEN [s2a EXCEPT !.await = "-", !.D[e.d].me = @ - 1,
                                      !.D[e.d].gens = SubSeq(@, 1, Len(@) - 1)]
                     ELSE s2a
           IN IF Trailing(s1, e)
              THEN R(s1, a.errs)
              ELSE IF e.d \in Ids(s2) /\ EnIter(s2, e.d)
              THEN R(DoIter(s2, e.d, BatchCalls(e.b, e.d)), a.errs)
              ELSE IF e.d \in Ids(s2) /\ s2.pc = "meta" /\ s2.cur = e.d /\ s2.await = "-"
                        /\ Eng(s2, e.d) \in PopEngines \cup ShotEngines
                   THEN \* more iterations than configured generations
                        R([DoIter(s2, e.d, BatchCalls(e.b, e.d)) EXCEPT !.gen = s2.gen],
                          a.errs \cup {"Info_MoreConsultsThanGenerations"})
                   ELSE R(Force(s2, e), a.errs \cup {"Desync"})
      [] e.e = "lsc" ->     \* a local condition consulted outside the protocol is a stutter of the model: if it
                            \* stops the deme, the next snapshot shows a deme that stopped without a cause
           IF e.d \in Ids(s) /\ EnLsc(s, e.d) THEN R(s, {})
           ELSE LET a  == Advance(s, e.b, e.snap, e.d, {})      \* local searches before it still ran
                    s1 == a.st
                    \* the local condition asked right after the last iteration, before (or instead of) the global one
                    s2 == IF s1.cur = NoDeme /\ EnBeginAny(s1, e.d) /\ e.d \in Ids(s1) /\ Eng(s1, e.d) # "LOCAL"
                          THEN DoBegin(s1, e.d) ELSE s1
                    s3 == IF e.d \in Ids(s2) /\ EnIter(s2, e.d) THEN DoIter(s2, e.d, BatchCalls(e.b, e.d)) ELSE s2
                    \* (how many generations make a metaepoch is mechanism: the turn ends where the deme ends it)
                    s4 == IF e.d \in Ids(s3) /\ EnGenGsc(s3, e.d)
                          THEN [Commit(s3, e.d) EXCEPT !.await = "lsc"] ELSE s3
                IN IF e.d \in Ids(s4) /\ EnLsc(s4, e.d) THEN R(s4, a.errs) ELSE R(a.st, a.errs \cup {"Desync"})
      [] e.e = "gsc" /\ e.by = "step" ->
           LET a == Advance(s, e.b, e.snap, NoDeme, {}) IN
           IF EnPostGsc(a.st) THEN a ELSE R(Force(a.st, e), a.errs \cup {"Desync"})
      [] e.e = "gsc" /\ e.by = "run" ->
           \* the condition may be asked more than once at the same boundary (by run() and by whoever drives the tree):
           \* when the observed counter shows that the step the model began at the previous consult has not begun, or
           \* the run has ended at this very boundary, the consult is one more observation of the same boundary
           LET sA == IF s.pc = "meta" /\ s.cur = NoDeme /\ s.stepCalls = 0 /\ s.D = s.D0 /\ e.snap.mc = s.mc - 1 /\ e.b = <<>>
                     THEN [s EXCEPT !.pc = "loop", !.mc = @ - 1, !.steps = @ - 1, !.queue = <<>>]
                     ELSE IF s.pc = "done" /\ e.snap.mc = s.mc /\ e.b = <<>> THEN [s EXCEPT !.pc = "loop"]
                     ELSE s
               s0 == IF sA.pc = "sprout" THEN [sA EXCEPT !.pc = "loop"] ELSE sA     \* no round was attempted
               s1 == IF s0.pc \in {"init", "loop"} THEN InitAll(s0, e.b) ELSE s0
           IN IF EnLoopCheck(s1) THEN R(s1, {}) ELSE R(Force(s1, e), {"Desync"})
      [] e.e = "sprout" ->
           IF EnSprout(s) THEN R(s, {})
           ELSE IF s.cfg.phases = 1 /\ s.pc \in {"meta", "loop", "init"}    \* tree.run_sprout() called by itself after
                THEN LET sm == IF s.pc = "meta" THEN s                          \* tree.run_metaepoch() (in which possibly nobody ran)
                               ELSE LET s1 == InitAll(s, e.b) IN [DoLoopCheck(s1, FALSE) EXCEPT !.mc = s1.mc]
                         a == Advance(sm, e.b, e.snap, NoDeme, {}) IN
                     IF EnPostGsc(a.st) THEN R([a.st EXCEPT !.pc = "sprout"], a.errs) ELSE R(Force(a.st, e), a.errs \cup {"Desync"})
                ELSE R(Force(s, e), {"Desync"})
      [] e.e = "end" ->     \* run() returned: the global condition must have been seen true at a metaepoch boundary
           \* (demes created by a last round that no consult followed have evaluated their initial populations)
           R(IF s.pc \in {"init", "loop"} THEN InitAll(s, e.b) ELSE s,
             IF Manual(s) \/ s.pc = "done" \/ (s.pc = "loop" /\ s.gscSeen /\ s.pendingInit = <<>>) THEN {} ELSE {"C05_DoneImpliesGsc"})
      \* consult from outside the protocol (e.g. between two children of a sprouting round): nothing is assumed about the
      \* position; the children of the round that the observed tree already holds have evaluated their initial populations
      [] e.e = "gsc" /\ e.by = "other" -> R(InitSeen(s, e.b, e.snap), {})
      [] e.e = "start" -> R(InitAll(s, e.b), {})
      [] e.e \in {"report", "dump"} ->      \* probes at the loop head (before the loop-head consult)
           LET s0 == IF s.pc = "sprout" THEN [s EXCEPT !.pc = "loop"] ELSE s
           IN R(IF s0.pc \in {"init", "loop"} THEN InitAll(s0, e.b) ELSE s0, {})
      [] e.e = "sethib" ->                  \* the caller switches the hibernation option off at a boundary: from now on
           LET s0 == IF s.pc = "sprout" THEN [s EXCEPT !.pc = "loop"] ELSE s          \* nobody is suspended any more
               s1 == IF s0.pc \in {"init", "loop"} THEN InitAll(s0, e.b) ELSE s0
           IN R([s1 EXCEPT !.cfg.hib = e.v,
                           !.D = [d \in DOMAIN s1.D |-> [s1.D[d] EXCEPT !.hib = IF e.v = 0 THEN FALSE ELSE @]]], {})
      [] OTHER -> R(s, {})

Pre(s, e) == LET h == ImplicitLoopHead(s, e)
                 p == PreAt(CloseCur(h.st, e), e)
             IN R(p.st, h.errs \cup p.errs)

-----------------------------------------------------------------------------
(* Compare: model state versus the projection of the real tree             *)
SnapLevels(sn) == sn.levels
Compare(s, sn) ==
    LET ids == SnapIds(sn)
        common == ids \cap Ids(s)
        \* reported counters = objective invocations only while no budget wrapper refuses and no memoising problem
        \* (FunctionProblem(use_cache=True)) can answer from its cache
        counted == sn.refused = 0 /\ s.cfg.cache = 0
    IN  (IF ids \ Ids(s) # {} THEN {IF s.gscSeen THEN "C05_NoSproutAfterGsc" ELSE "C07_UnexpectedDeme"} ELSE {})
   \cup (IF ids \cap s.ban # {} THEN {"C05_NoSproutAfterGsc"} ELSE {})
   \cup (IF Ids(s) \ ids # {} THEN {"C07_DemeVanished"} ELSE {})
   \cup (IF Len(sn.demes) # Cardinality(ids) THEN {"C07_UniqueIds"} ELSE {})
   \cup (IF sn.mc # s.mc THEN {"C05_CounterEqualsPerformed"} ELSE {})
   \cup (IF \E d \in common : SnapRec(sn, d).act = 0 /\ s.D[d].active THEN {"C06_StopCauses"} ELSE {})
   \cup (IF \E d \in common : SnapRec(sn, d).act = 1 /\ ~s.D[d].active
         THEN {IF \E d \in common : SnapRec(sn, d).act = 1 /\ ~s.D[d].active /\ s.D[d].why = "-"
               THEN "C06_StopCauses" ELSE "C06_InactiveFrozen"} ELSE {})
   \cup (IF \E d \in common : (SnapRec(sn, d).hib = 1) # s.D[d].hib
         THEN {IF HibOn(s) THEN "C18_HibIffNoSproutInLastRound" ELSE "C18_OffMeansNever"} ELSE {})
   \cup (IF counted /\ \E d \in common : SnapRec(sn, d).ev # s.D[d].evals THEN {"C03_DemeCountEqualsCalls"} ELSE {})
   \cup (IF \E d \in common : SnapRec(sn, d).me # s.D[d].me THEN {"C06_SteppedExactlyOnce"} ELSE {})
   \cup (IF \E d \in common : SnapRec(sn, d).gens # s.D[d].gens THEN {"Info_GenerationsRecorded"} ELSE {})
   \* C05 "each still-active deme performs at most one further engine iteration": generations that the deme recorded in
   \* its last metaepoch without a consult in between are iterations too (the model counts one iteration per consult)
   \cup (IF \E d \in common :
              LET r == SnapRec(sn, d) IN
              /\ d \in DOMAIN s.wind /\ s.wind[d] >= 1 /\ Eng(s, d) \in PopEngines
              /\ r.me = s.D[d].me /\ Len(r.gens) = Len(s.D[d].gens) /\ r.gens # <<>>
              /\ s.wind[d] + Last(r.gens) - Last(s.D[d].gens) > 1
         THEN {"C05_WindDownAtMostOne"} ELSE {})
   \cup (IF \E d \in common : \/ SnapRec(sn, d).lvl # s.D[d].lvl
                              \/ SnapRec(sn, d).sa # s.D[d].startedAt
                              \/ (d # RootId /\ SnapRec(sn, d).par # s.D[d].parent)
         THEN {"C07_Structure"} ELSE {})
   \cup (IF SnapLevels(sn) # s.L /\ ids = Ids(s) THEN {"Info_LevelOrder"} ELSE {})

\* A deme may open the record of its running metaepoch before the metaepoch is complete (generations appended one by one):
\* while its turn is open the observed metaepoch count may already be one ahead of the model, which commits the metaepoch
\* at the end of the turn - where the two must agree.  The view hides the record that is still being written.
OpenTurn(s, d) == s.pc = "meta" /\ s.cur = d /\ d \in Ids(s) /\ s.await \in {"gsc", "-"} /\ Eng(s, d) \notin ShotEngines
View(s, sn) ==
    [sn EXCEPT !.demes = [i \in DOMAIN sn.demes |->
        LET r == sn.demes[i] IN
        IF OpenTurn(s, r.id) /\ r.me = s.D[r.id].me + 1 THEN [r EXCEPT !.me = s.D[r.id].me, !.gens = s.D[r.id].gens] ELSE r]]

\* does the model state differ from the observed projection in any field (flagged or not)?
Differs(s, sn) ==
    \/ SnapIds(sn) # Ids(s) \/ sn.mc # s.mc \/ sn.levels # s.L
    \/ \E d \in SnapIds(sn) \cap Ids(s) :
          LET r == SnapRec(sn, d) IN
          \/ (r.act = 1) # s.D[d].active \/ (r.hib = 1) # s.D[d].hib \/ r.ev # s.D[d].evals
          \/ r.me # s.D[d].me \/ r.gens # s.D[d].gens \/ r.lvl # s.D[d].lvl \/ r.sa # s.D[d].startedAt

\* adopt the observed projection
Resync(s, sn) ==
    LET ids == SnapIds(sn) IN
    [s EXCEPT !.mc = sn.mc, !.steps = sn.mc,
              !.D = [d \in ids |->
                       LET r == SnapRec(sn, d) IN
                       [lvl |-> r.lvl, parent |-> IF d = RootId THEN NoDeme ELSE r.par, startedAt |-> r.sa,
                        active |-> r.act = 1, hib |-> r.hib = 1, evals |-> r.ev, me |-> r.me, gens |-> r.gens,
                        why |-> IF d \in Ids(s) THEN s.D[d].why ELSE "-"]],
              !.L = [i \in 1..s.cfg.nlevels |-> IF i <= Len(sn.levels) THEN sn.levels[i] ELSE <<>>],
              !.wind = [d \in ids |-> IF d \in DOMAIN s.wind THEN s.wind[d] ELSE 0],
              !.queue = SelectSeq(@, LAMBDA x : x \in ids),
              !.pendingInit = SelectSeq(@, LAMBDA x : x \in ids)]

-----------------------------------------------------------------------------
(* Clauses on the observed snapshot itself (no model state needed)         *)
SumSeq(q) == FoldSeq(LAMBDA x, acc : acc + x, 0, q)
SnapClauses(s, sn) ==
    LET ids == SnapIds(sn) IN
        (IF sn.tev # FoldSeq(LAMBDA r, acc : acc + r.ev, 0, sn.demes) THEN {"C03_TreeEqualsSumOfDemes"} ELSE {})
   \cup (IF sn.refused = 0 /\ s.cfg.cache = 0 /\ \E lv \in DOMAIN sn.lcalls :
              sn.lcalls[lv] # FoldSeq(LAMBDA r, acc : IF r.lix = lv - 1 THEN acc + r.ev ELSE acc, 0, sn.demes)
         THEN {"C03_LevelEqualsCalls"} ELSE {})
   \cup (IF \E i \in DOMAIN sn.demes : sn.demes[i].lvl # sn.demes[i].lix THEN {"C07_Structure"} ELSE {})
   \cup (IF \E i \in DOMAIN sn.demes :
              sn.demes[i].lix + 1 \in DOMAIN s.cfg.levels /\ sn.demes[i].cls # s.cfg.levels[sn.demes[i].lix + 1].cls
         THEN {"C07_EnginePerLevel"} ELSE {})
   \cup (IF \E i \in DOMAIN sn.demes : sn.demes[i].par = "MANY" THEN {"C07_SingleParent"} ELSE {})
   \cup (IF \E i \in DOMAIN sn.demes : sn.demes[i].id # RootId /\ sn.demes[i].par = "" THEN {"C07_ParentListsChild"} ELSE {})
   \cup (IF Len(sn.levels) # s.cfg.nlevels THEN {"C07_Height"} ELSE {})

\* Clauses of HMS.tla on the (observed) state
StateClauses(s) ==
        (IF ~C07_Structure(s) THEN {"C07_Structure"} ELSE {})
   \cup (IF C07_Structure(s) /\ ~C07_IdLaw(s) THEN {"Info_IdLaw"} ELSE {})     \* the id scheme is mechanism, not property
   \cup (IF ~C08_ActiveWithinLimit(s) THEN {"C08_ActiveWithinLimit"} ELSE {})
   \cup (IF ~C05_WindDownAtMostOne(s) THEN {"C05_WindDownAtMostOne"} ELSE {})
   \* (stated in terms of the tree's metaepoch counter: not applicable while the caller keeps the counter frozen)
   \cup (IF s.cfg.phases = 0 /\ ~C06_NewbornHasNotRun(s) THEN {"C06_NewbornHasNotRun"} ELSE {})
   \cup (IF ~C18_OffMeansNever(s) THEN {"C18_OffMeansNever"} ELSE {})

\* Clauses evaluated when the metaepoch is complete (post-metaepoch consult)
PostClauses(s) ==
        (IF ~C06_SteppedExactlyOnce(s) THEN {"C06_SteppedExactlyOnce"} ELSE {})
   \cup (IF ~C18_AsleepMeansFrozen(s) THEN {"C18_AsleepMeansFrozen"} ELSE {})

-----------------------------------------------------------------------------
(* Post: effect of the observed verdict / round.  Returns [st, errs]       *)
LookaheadInactive(d) ==
    /\ l < Len(Tr) /\ HasSnap(Tr[l + 1])
    /\ d \in SnapIds(Tr[l + 1].snap) /\ SnapRec(Tr[l + 1].snap, d).act = 0
    /\ BatchCalls(Tr[l + 1].b, d) = 0       \* (it did not go on evaluating after this consult)

RoundOf(e) == [i \in DOMAIN e.ret |-> <<e.ret[i][1], Len(e.ret[i][2])>>]

Post(s, e) ==
    CASE e.e = "gsc" ->
           \* the property states the verdict only for MetaepochLimit(n) ("exactly n") and DontRun ("zero"); a different
           \* verdict of another shipped condition is recorded as information
           \* "run() performs whole metaepochs until the global stop condition holds": for the shipped conditions whose
           \* meaning is a crisp function of the tree (metaepoch count, evaluation totals, activity of demes) the verdict
           \* must be that function of the observed tree - evaluation totals only while reported counters are exact
           \* (no refusal yet, no memoising problem).  NoActiveNonrootDemes' waiting period stays informational.
           LET crisp == \/ s.cfg.gsc \in {"MetaepochLimit", "DontRun", "RootStopped", "AllStopped"}
                        \/ (s.cfg.gsc \in {"SingularEvalLimit", "WeightedEvalLimit"} /\ e.snap.refused = 0 /\ s.cfg.cache = 0)
               verr == IF GscModelled(s) /\ GscVal(s) # e.v
                       THEN {IF crisp THEN "C05_GscVerdict" ELSE "Info_GscVerdict"} ELSE {}
               latch == IF s.gscSeen /\ ~e.v /\ s.cfg.gsc # "Scripted" THEN {"C05_GscNotMonotone"} ELSE {}
           IN CASE e.by = "deme" ->
                     IF EnGenGsc(s, e.d)
                     THEN LET self == ~e.v /\ Eng(s, e.d) = "CMA" /\ LookaheadInactive(e.d)
                          IN R(DoGenGsc(s, e.d, e.v, self), verr \cup latch)
                     ELSE IF Trailing(s, e) /\ e.v
                     THEN R([s EXCEPT !.D[e.d].active = FALSE, !.D[e.d].why = IF s.D[e.d].active THEN "gsc" ELSE @,
                                      !.gscSeen = TRUE, !.gscAt = IF @ = -1 THEN s.steps ELSE @], verr \cup latch)
                     ELSE R(s, verr \cup latch)
                [] e.by = "step" -> R(IF EnPostGsc(s) THEN DoPostGsc(s, e.v) ELSE s, verr \cup latch)
                [] e.by = "run"  -> R(IF EnLoopCheck(s) THEN DoLoopCheck(s, e.v) ELSE s, verr \cup latch)
                \* a consult from anywhere else (e.g. inside a sprouting round): the model does not move, but the
                \* condition has now been "observed true": demes of the current round that are not constructed yet
                \* (still pending and absent from the observed tree) must not appear any more
                [] OTHER -> R(IF e.v
                              THEN LET late == {c \in Ids(s) : /\ \E i \in DOMAIN s.pendingInit : s.pendingInit[i] = c
                                                              /\ c \notin SnapIds(e.snap)}
                                       \* the round ends here: it "took a sprout" from the parents of the children that exist
                                       from == {s.D[c].parent : c \in s.roundNew \ late}
                                   IN [s EXCEPT !.gscSeen = TRUE, !.ban = @ \cup late, !.roundFrom = from,
                                                !.D = [d \in Ids(s) \ late |->
                                                         IF HibOn(s) /\ d \in s.roundPart /\ late # {}
                                                         THEN [s.D[d] EXCEPT !.hib = d \notin from] ELSE s.D[d]],
                                                !.L = [i \in DOMAIN s.L |-> SelectSeq(s.L[i], LAMBDA x : x \notin late)],
                                                !.wind = [d \in DOMAIN s.wind \ late |-> s.wind[d]],
                                                !.pendingInit = SelectSeq(@, LAMBDA x : x \notin late),
                                                !.roundNew = @ \ late]
                              ELSE s, verr \cup latch)
      [] e.e = "lsc" ->
           IF EnLsc(s, e.d)
           THEN LET verr == IF LscModelled(s, e.d) /\ LscVal(s, e.d) # e.v THEN {"Info_LscVerdict"} ELSE {}
                    self == ~e.v /\ Eng(s, e.d) = "CMA" /\ LookaheadInactive(e.d)
                IN R(DoLsc(s, e.d, e.v, self), verr)
           ELSE R(s, {})
      [] e.e = "sprout" ->
           LET S == RoundOf(e) IN
           IF EnSprout(s) /\ \A i \in DOMAIN S : S[i][1] \in Ids(s) /\ ~IsLeafLevel(s, Lvl(s, S[i][1]))
           THEN LET s2 == DoSprout(s, S) IN
                R(s2, (IF ~C08_RoundWithinFreeSlots(s, s2) THEN {"C08_RoundWithinFreeSlots"} ELSE {})
                      \* (a caller invoking run_sprout() itself decides when to sprout: C05 speaks about run())
                      \cup (IF s.gscSeen /\ S # <<>> /\ s.cfg.phases = 0 THEN {"C05_NoSproutAfterGsc"} ELSE {}))
           ELSE R([s EXCEPT !.pc = "loop"], {"C10_SeedsFromNonLeafDemes"})
      [] OTHER -> R(s, {})

-----------------------------------------------------------------------------
(* Data plane.  Individuals are logged as <<gid, rank, inbox, tru>>:        *)
(* gid = genome identity, rank = dense goodness rank in the problem's own  *)
(* direction (0 best), inbox / tru = atoms computed by the harness         *)
(* (tru: 1 fitness = objective(genome), 0 not, 2 cutoff sentinel, 3 NaN).   *)
Pair(i)      == <<i[1], i[2]>>
Pairs(g)     == {Pair(g[j]) : j \in DOMAIN g}
Gids(g)      == {g[j][1] : j \in DOMAIN g}
Ranks(g)     == [j \in DOMAIN g |-> g[j][2]]
MinRank(g)   == Min({g[j][2] : j \in DOMAIN g})
SortedRanks(g) == SortSeq(Ranks(g), LAMBDA a, b : a < b)
Leq(a, b)    == Len(a) = Len(b) /\ \A j \in DOMAIN a : a[j] <= b[j]

NoMem == [hd |-> "", n |-> 0, last |-> <<>>, minr |-> -1, bestset |-> {}, iters |-> <<>>, lam |-> 0,
          seen |-> FALSE, obs |-> <<>>, since |-> {}]
MemOf(m, d) == IF d \in DOMAIN m.d THEN m.d[d] ELSE NoMem

ElitistSEA(s, lv) == s.cfg.levels[lv + 1].eng = "SEA" /\ s.cfg.levels[lv + 1].elite >= 1
OneToOne(s, lv)   == s.cfg.levels[lv + 1].eng \in {"DE", "SHADE"}
BredEngine(s, lv) == s.cfg.levels[lv + 1].eng \in {"SEA", "DE", "SHADE", "CMA"}

\* clauses over the generations of deme record r that were committed since the last full snapshot
\* gs = <<previous last generation (or <<>>)>> \o new generations ; its = call-gid sets per iteration
GenClauses(s, r, md, refusedNow) ==
    LET lv   == r.lix
        new  == r.new
        eng  == s.cfg.levels[lv + 1].eng
        pop  == s.cfg.levels[lv + 1].pop
        gen0 == md.n = 0                       \* the first new generation is the initial population
        its  == md.iters
        \* index of the iteration that produced new[k]: the last Len(new)-(gen0) iterations recorded
        nIter == Len(new) - (IF gen0 THEN 1 ELSE 0)
        off  == Len(its) - nIter
        prevOf(k) == IF k = 1 THEN md.last ELSE new[k - 1]
        iterOf(k) == LET j == off + k - (IF gen0 THEN 1 ELSE 0) IN IF j \in DOMAIN its THEN its[j] ELSE {}
        bredIdx == {k \in DOMAIN new : ~(gen0 /\ k = 1) /\ prevOf(k) # <<>>}
    IN  (IF \E k \in DOMAIN new : \E j \in DOMAIN new[k] : new[k][j][3] # 1 THEN {"C01_StoredInBox"} ELSE {})
   \cup (IF \E k \in DOMAIN new : \E j \in DOMAIN new[k] :
              ~(new[k][j][4] = 1 \/ (new[k][j][4] = 2 /\ refusedNow)) THEN {"C02_TrueFitness"} ELSE {})
   \cup (IF eng \in {"SEA", "DE", "SHADE", "LHS", "SOBOL"} /\ \E k \in DOMAIN new : Len(new[k]) # pop
         THEN {"C12_PopSize"} ELSE {})
   \cup (IF eng = "CMA" /\ \E k \in DOMAIN new : Len(new[k]) # (IF md.lam = 0 THEN Len(new[1]) ELSE md.lam)
         THEN {"C12_PopSize"} ELSE {})
   \* "newly evaluated after that preceding generation was completed": evaluated in the iteration that produced the
   \* generation (iterations are delimited by the deme's own consults); when more generations were committed than
   \* iterations were observed (off < 0: the deme did not consult after every generation, or it recorded generations
   \* without running), the weaker but still necessary condition "evaluated by this deme since the last boundary"
   \* (md.since) is required instead
   \cup (IF BredEngine(s, lv) /\ \E k \in bredIdx : \E j \in DOMAIN new[k] :
              /\ new[k][j][4] # 2
              /\ Pair(new[k][j]) \notin Pairs(prevOf(k))
              /\ new[k][j][1] \notin (IF off >= 0 THEN iterOf(k) ELSE md.since)
         THEN {"C11_BredFromPredecessor"} ELSE {})
   \cup (IF (ElitistSEA(s, lv) \/ OneToOne(s, lv)) /\ \E k \in bredIdx : MinRank(new[k]) > MinRank(prevOf(k))
         THEN {"C12_BestNotWorse"} ELSE {})
   \cup (IF OneToOne(s, lv) /\ \E k \in bredIdx : ~Leq(SortedRanks(new[k]), SortedRanks(prevOf(k)))
         THEN {"C12_KthBestNotWorse"} ELSE {})
   \cup (IF eng \in {"SEA", "DE", "SHADE"} /\ gen0 /\ r.id # RootId /\ new # <<>> /\ r.seed # <<>>
            /\ r.seed[1] \notin Gids(new[1]) THEN {"C07_SeedInInitialPopulation"} ELSE {})

UpdMem(md, r) ==
    LET new == r.new
        allmin == IF new = <<>> THEN md.minr
                  ELSE LET m == Min({MinRank(new[k]) : k \in {x \in DOMAIN new : new[x] # <<>>}} \cup
                                    (IF md.minr = -1 THEN {} ELSE {md.minr})) IN m
        bs(k) == {new[k][j][1] : j \in {x \in DOMAIN new[k] : new[k][x][2] = allmin}}
    IN [md EXCEPT !.hd = r.hd, !.n = r.ngen,
                  !.last = IF new = <<>> THEN @ ELSE new[Len(new)],
                  !.minr = allmin,
                  !.bestset = (IF allmin = md.minr THEN @ ELSE {}) \cup UNION {bs(k) : k \in DOMAIN new},
                  !.lam = IF @ = 0 /\ new # <<>> THEN Len(new[1]) ELSE @,
                  !.seen = TRUE, !.since = {}, !.iters = <<>>]      \* (full snapshots are taken at metaepoch boundaries)

NonEmptyGens(new) == \A k \in DOMAIN new : new[k] # <<>>

\* Full snapshot: clauses + memory update
FullClauses(s, m, sn) ==
    UNION { LET r == sn.demes[i]
                md == MemOf(m, r.id)
                refusedNow == sn.refused > 0
                md2 == UpdMem(md, r)
            IN  (IF r.pn # md.n \/ r.hp # (IF md.n = 0 THEN r.hp ELSE md.hd) THEN {"C02_HistoryAppendOnly"} ELSE {})
           \* C06 "once inactive ... its history never changes": recorded generations of a stopped deme were altered
           \cup (IF (r.pn # md.n \/ r.hp # (IF md.n = 0 THEN r.hp ELSE md.hd)) /\ r.id \in Ids(s) /\ ~s.D[r.id].active
                 THEN {"C06_InactiveFrozen"} ELSE {})
           \cup (IF NonEmptyGens(r.new) \/ s.cfg.levels[r.lix + 1].eng = "LOCAL"
                 THEN GenClauses(s, [r EXCEPT !.new = SelectSeq(r.new, LAMBDA g : g # <<>>)], md, refusedNow)
                 ELSE {"C12_PopSize"})
           \cup (IF r.best # <<>> /\ md2.minr # -1 /\ (r.best[2] # md2.minr \/ r.best[1] \notin md2.bestset)
                 THEN {"C04_DemeBestIsMaxOfHistory"} ELSE {})
           \cup (IF r.best = <<>> /\ md2.minr # -1 THEN {"C04_DemeBestIsMaxOfHistory"} ELSE {})
           \cup (IF r.best # <<>> /\ ~(r.best[4] = 1 \/ (r.best[4] = 2 /\ refusedNow)) THEN {"C02_TrueFitness"} ELSE {})
           \cup (IF r.seed # <<>> /\ r.seed[3] # 1 THEN {"C01_SeedInBox"} ELSE {})
           \cup (IF r.seed # <<>> /\ ~(r.seed[4] = 1 \/ (r.seed[4] = 2 /\ refusedNow)) THEN {"C02_TrueFitness"} ELSE {})
           \cup (IF r.cen # 1 THEN {"C09_CentroidCurrent"} ELSE {})
          : i \in DOMAIN sn.demes }

MemAfterFull(m, sn) ==
    [m EXCEPT !.d = [d \in SnapIds(sn) \cup DOMAIN m.d |->
                        IF d \in SnapIds(sn) THEN UpdMem(MemOf(m, d), SnapRec(sn, d)) ELSE m.d[d]]]

TreeBestClauses(s, m2, sn, boundary) ==
    LET mins == {m2.d[d].minr : d \in {x \in DOMAIN m2.d : m2.d[x].minr # -1}}
        tmin == IF mins = {} THEN -1 ELSE Min(mins)
        cands == UNION {m2.d[d].bestset : d \in {x \in DOMAIN m2.d : m2.d[x].minr = tmin}}
        counted == sn.refused = 0 /\ s.cfg.haslocal = 0 /\ s.cfg.cache = 0
    IN  (IF sn.best # <<>> /\ tmin # -1 /\ (sn.best[2] # tmin \/ sn.best[1] \notin cands)
         THEN {"C04_TreeBestIsMaxOfHistory"} ELSE {})
   \cup (IF sn.best # <<>> /\ m2.tbest # -1 /\ sn.best[2] > m2.tbest THEN {"C04_Monotone"} ELSE {})
   \cup (IF counted /\ sn.best # <<>> /\ m2.mincall # -1 /\ sn.best[2] # m2.mincall
         THEN {"C04_BestEverObserved"} ELSE {})

\* calls in this event's batches
CallClauses(e) ==
    IF \E c \in AllCalls(e.b) : c[3] # 1 THEN {"C01_EvalInBox"} ELSE {}

\* who evaluated since the previous event (s: the model state the previous event left behind):
\* C06 "once inactive it ... never evaluates the objective again";
\* C18 "a hibernating deme performs no objective evaluations ... until a later round sprouts from it"
AttrClauses(s, e) ==
    LET who == {d \in BatchDemes(e.b) \cap Ids(s) : BatchCalls(e.b, d) > 0} IN
        (IF \E d \in who : ~s.D[d].active THEN {"C06_InactiveEvaluates"} ELSE {})
   \cup (IF \E d \in who : s.D[d].active /\ Asleep(s, d) THEN {"C18_AsleepMeansFrozen"} ELSE {})

MemCalls(m, s, e) ==
    LET calls == AllCalls(e.b)
        mn == IF calls = {} THEN m.mincall
              ELSE Min({c[2] : c \in calls} \cup (IF m.mincall = -1 THEN {} ELSE {m.mincall}))
        \* per-deme iteration call sets: a consult by deme d closes one iteration of d
        \* (also its local condition, when the deme asks that one first after its last iteration; a consult after the
        \* metaepoch is complete - s.cur = NoDeme - closes nothing)
        closes == \/ (e.e = "gsc" /\ e.by = "deme" /\ ~(s.pc = "meta" /\ s.cur = NoDeme))
                  \/ (e.e = "lsc" /\ BatchGids(e.b, e.d) # {})
        upd == IF closes
               THEN [m.d EXCEPT ![e.d] = [MemOf(m, e.d) EXCEPT !.iters = Append(@, BatchGids(e.b, e.d))]]
               ELSE m.d
        d2 == IF closes /\ e.d \notin DOMAIN m.d
              THEN [x \in DOMAIN m.d \cup {e.d} |-> IF x = e.d
                       THEN [NoMem EXCEPT !.iters = <<BatchGids(e.b, e.d)>>] ELSE m.d[x]]
              ELSE upd
        bd == BatchDemes(e.b)
        d3 == [x \in DOMAIN d2 \cup bd |->
                 LET old == IF x \in DOMAIN d2 THEN d2[x] ELSE NoMem
                 IN IF x \in bd THEN [old EXCEPT !.since = @ \cup BatchGids(e.b, x)] ELSE old]
    IN [m EXCEPT !.mincall = mn, !.d = d3]

\* iteration sets are per metaepoch: reset when the loop-head consult starts a new step
MemNewStep(m) == [m EXCEPT !.d = [d \in DOMAIN m.d |-> [m.d[d] EXCEPT !.iters = <<>>]]]

\* sprout event: seeds, provenance, distances
SproutClauses(s, m, e) ==
    LET seeds == UNION {{<<e.ret[i][1], e.ret[i][2][j]>> : j \in DOMAIN e.ret[i][2]} : i \in DOMAIN e.ret}
        genOf(p)  == UNION {IF e.gen[i][1] = p THEN {e.gen[i][2][j][1] : j \in DOMAIN e.gen[i][2]} ELSE {} : i \in DOMAIN e.gen}
        usedOf(p) == UNION {IF e.used[i][1] = p THEN {e.used[i][2][j] : j \in DOMAIN e.used[i][2]} ELSE {} : i \in DOMAIN e.used}
        refusedNow == e.snap.refused > 0
        viaLocal == s.cfg.sprout = "nbc_local"
    IN  (IF \E x \in seeds : x[2][3] # 1 THEN {"C01_SeedInBox"} ELSE {})
   \cup (IF \E x \in seeds : ~(x[2][4] = 1 \/ (x[2][4] = 2 /\ refusedNow)) THEN {"C02_TrueFitness"} ELSE {})
   \cup (IF \E x \in seeds : ~(x[2][5] = 1 \/ (viaLocal /\ x[2][6] = 1)) THEN {"C07_SeedFromParentPopulation"} ELSE {})
   \cup (IF \E i \in DOMAIN e.atoms.far : e.atoms.far[i][4] # 1 THEN {"C09_FarFromConsidered"} ELSE {})
   \cup (IF \E i \in DOMAIN e.used : ~(usedOf(e.used[i][1]) \subseteq genOf(e.used[i][1])) THEN {"C10_FiltersOnlyRemove"} ELSE {})
   \cup (IF \E x \in seeds : x[2][1] \notin usedOf(x[1]) THEN {"C10_FiltersOnlyRemove"} ELSE {})
   \* (the local-method generator may offer the best individual of a deme that has just finished - not of an active one)
   \cup (IF \E i \in DOMAIN e.gen : \E j \in DOMAIN e.gen[i][2] :
              ~(e.gen[i][2][j][3] = 1 \/ (viaLocal /\ e.gen[i][2][j][4] = 1
                                           /\ e.gen[i][1] \in Ids(s) /\ ~s.D[e.gen[i][1]].active))
         THEN {"C10_CandidatesFromCurrentPopulation"} ELSE {})
   \cup (IF s.cfg.generator = "best" /\ \E i \in DOMAIN e.gen :
              \/ Len(e.gen[i][2]) # 1
              \/ (e.gen[i][1] \in DOMAIN m.d /\ m.d[e.gen[i][1]].last # <<>>
                  /\ e.gen[i][2][1][2] # MinRank(m.d[e.gen[i][1]].last))
         THEN {"C10_BestPerDemeProposesBest"} ELSE {})
   \* C10 "SkipSameSprout never lets through a candidate numerically equal to a seed already sprouted from the same
   \*      parent" (genome ids are identities of numeric content; e.snap is the tree before the round)
   \cup (IF s.cfg.skipsame = 1 /\ \E x \in seeds : \E i \in DOMAIN e.snap.demes :
              e.snap.demes[i].par = x[1] /\ e.snap.demes[i].seed # <<>> /\ e.snap.demes[i].seed[1] = x[2][1]
         THEN {"C10_SkipSameSprout"} ELSE {})
   \* C10 "candidates come only from the current populations of active non-leaf demes (the local-method generator
   \*      additionally offers the best individual of a just-finished deme)": with that generator the parents are the
   \* active demes above the last two levels and the demes of the last-but-one level that stopped in the metaepoch
   \* just finished (sprout_generators.py:55-76) - not demes that stopped earlier
   \cup (IF \E i \in DOMAIN e.gen :
              LET p == e.gen[i][1] IN
              ~(/\ p \in Ids(s)
                /\ ~IsLeafLevel(s, Lvl(s, p))
                /\ IF viaLocal
                   THEN \/ (s.D[p].active /\ Lvl(s, p) < NLevels(s) - 2)
                        \/ (Lvl(s, p) = NLevels(s) - 2 /\ ~s.D[p].active /\ s.D[p].startedAt + s.D[p].me + 1 = s.mc)
                   ELSE s.D[p].active)
         THEN {"C10_CandidatesFromActiveNonLeaves"} ELSE {})

\* C20: the report probe
ReportClauses(e) ==
    LET rep == e.rep  sn == e.snap IN
        (IF e.err # "" THEN {"C20_AccessorRaises"} ELSE {})
   \cup (IF e.err = "" /\ rep.ok # 1 THEN {"C20_ReportWellFormed"} ELSE {})
   \cup (IF e.err = "" /\ rep.ok = 1 /\ ~R_HeaderOK(sn, rep) THEN {"C20_HeaderMatches"} ELSE {})
   \cup (IF e.err = "" /\ rep.ok = 1 /\ ~R_LevelsOK(sn, rep) THEN {"C20_LevelMatches"} ELSE {})
   \cup (IF e.err = "" /\ rep.ok = 1 /\ ~R_LinesOK(sn, rep) THEN {"C20_DemeLines"} ELSE {})
   \cup (IF e.err = "" /\ rep.ok = 1 /\ ~R_MarkerOK(rep) THEN {"C20_MarkerExact"} ELSE {})
   \cup (IF e.err = "" /\ rep.intree # 1 THEN {"C20_TreeInSummary"} ELSE {})
   \cup (IF e.pure # 1 \/ e.nocalls # 1 THEN {"C20_AccessorPure"} ELSE {})
   \cup (IF e.err = "" /\ e.same # 1 THEN {"C20_AccessorIdempotent"} ELSE {})

\* C19: the snapshot / restore probe
DumpClauses(e) ==
        (IF e.err # "" THEN {"C19_DumpLoadRaises"} ELSE {})
   \cup (IF e.err = "" /\ (e.stutter # 1 \/ e.livestill # 1) THEN {"C19_DumpIsStutter"} ELSE {})
   \cup (IF e.err = "" /\ e.loadeq # 1 THEN {"C19_LoadEqualsSnapshot"} ELSE {})
   \cup (IF e.err = "" /\ e.summarysame # 1 THEN {"C19_SummarySame"} ELSE {})
   \cup (IF e.err = "" /\ e.verdictsame # 1 THEN {"C19_VerdictSame"} ELSE {})

-----------------------------------------------------------------------------
Init == /\ tid \in 1..NTraces
        /\ l = 1
        /\ st = InitState(CfgOf(AllTraces[tid].events[1].cfg))
        /\ mem = [d |-> [x \in {} |-> NoMem], tbest |-> -1, mincall |-> -1, offered |-> {}]
        /\ viol = {}

Tag(S, i) == {<<c, i>> : c \in S}

Step ==
    /\ l <= Len(Tr)
    /\ LET e  == Ev IN
       IF ~HasSnap(e)
       THEN /\ viol' = viol \cup {<<"RunCrashed", l>>}
            /\ UNCHANGED <<st, mem>>
       ELSE IF e.e = "retarget"   \* the caller changed the limit of the global condition after run() returned
       THEN /\ st' = [st EXCEPT !.cfg.gscn = e.n, !.gscSeen = FALSE, !.pc = "loop",
                                 !.wind = [d \in DOMAIN st.wind |-> 0]]
            /\ UNCHANGED <<mem, viol>>
       ELSE IF e.e = "abort"      \* the harness cut a run that did not end: nothing is compared mid-step
       THEN /\ viol' = viol \cup {<<"RunStalled", l>>}
            /\ UNCHANGED <<st, mem>>
       ELSE
       LET sn   == e.snap
           p    == Pre(st, e)
           \* a consult from outside the protocol may see the tree in the middle of a round: only the ban is checked
           other == e.e = "gsc" /\ e.by = "other"
           snv  == View(p.st, sn)
           cmp  == IF other THEN (IF SnapIds(sn) \cap p.st.ban # {} THEN {"C05_NoSproutAfterGsc"} ELSE {})
                   ELSE Compare(p.st, snv)
           s2   == IF ~other /\ Differs(p.st, snv) THEN Resync(p.st, snv) ELSE p.st
           m1   == MemCalls(mem, s2, e)
           full == sn.full = 1
           fc   == IF full THEN FullClauses(s2, m1, sn) ELSE {}
           m2   == IF full THEN MemAfterFull(m1, sn) ELSE m1
           tb   == IF full THEN TreeBestClauses(s2, m2, sn, TRUE) ELSE {}
           m3   == IF full /\ sn.best # <<>> THEN [m2 EXCEPT !.tbest = sn.best[2]] ELSE m2
           m3b  == IF e.e = "sprout"      \* who was offered at least one candidate by the generator in this round
                   THEN [m3 EXCEPT !.offered = {e.gen[i][1] : i \in {j \in DOMAIN e.gen : Len(e.gen[j][2]) >= 1}}]
                   ELSE m3
           m4   == IF e.e = "gsc" /\ e.by = "run" /\ ~e.v THEN MemNewStep(m3b) ELSE m3b
           pc   == IF e.e = "gsc" /\ e.by = "step" THEN PostClauses(s2)
                   ELSE IF e.e = "sprout" /\ s2.cfg.phases = 1 /\ s2.pc = "sprout" THEN PostClauses([s2 EXCEPT !.pc = "meta"])
                   ELSE {}
           sc   == IF e.e = "sprout" THEN SproutClauses(s2, m2, e) ELSE {}
           q    == Post(s2, e)
           idle == IF e.e = "gsc" /\ e.by = "step" /\ s2.cfg.idlecheck = 1 /\ sn.refused = 0 /\ IdleMetaepoch(q.st)
                   THEN {IF AllActiveWereAsleep(q.st)
                         THEN \* known finding KF-C18-stall: every active deme slept because the last round *could* have
                              \* sprouted from it (the generator proposed candidates) and the filters took none; a
                              \* sleeping deme the shipped generators proposed nothing for can never be woken
                              IF s2.cfg.generator \in {"best", "nbc"} /\ s2.rounds > 0 /\
                                 \E d \in DOMAIN q.st.D0 : AsleepAtStart(q.st, d) /\ d \notin mem.offered
                              THEN "C18_IdleNotOffered" ELSE "C18_IdleAllAsleep"
                         \* known finding KF-C18-converged: every awake deme ran and every one of their populations has
                         \* collapsed to float precision (spread of at most 1024 units in the last place)
                         ELSE IF AllAwakeRanWithoutChange(q.st) /\
                                 \A i \in DOMAIN sn.demes : (sn.demes[i].id \in DOMAIN q.st.D0 /\ AwakeAtStart(q.st, sn.demes[i].id))
                                                               => sn.demes[i].spr <= 1024
                              THEN "C18_IdleConverged"
                         ELSE "C18_NoIdleMetaepoch"} ELSE {}
           endc == IF e.e = "end" /\ ~Manual(s2) /\ ~C05_CounterEqualsPerformed([s2 EXCEPT !.pc = "done"])
                   THEN {"C05_CounterEqualsPerformed"} ELSE {}
           hibc == IF e.e = "gsc" /\ e.by = "run" /\ ~C18_HibIffNoSproutInLastRound(s2)
                   THEN {"C18_HibIffNoSproutInLastRound"} ELSE {}
           stall == IF e.e = "abort" THEN {"RunStalled"} ELSE {}
           probe == IF e.e = "report" THEN ReportClauses(e) ELSE IF e.e = "dump" THEN DumpClauses(e) ELSE {}
       IN /\ st' = q.st
          /\ mem' = m4
          /\ viol' = viol \cup Tag(p.errs \cup cmp \cup SnapClauses(s2, sn) \cup StateClauses(s2) \cup CallClauses(e)
                                   \cup AttrClauses(st, e) \cup fc \cup tb \cup pc \cup sc \cup q.errs \cup idle \cup endc \cup hibc \cup stall \cup probe, l)
    /\ l' = l + 1
    /\ UNCHANGED tid

Finish ==
    /\ l = Len(Tr) + 1
    /\ PrintT(<<"TRACE", ToJson([tid |-> tid, name |-> AllTraces[tid].name, n |-> Len(Tr),
                                  viol |-> SetToSeq(viol)])>>)
    /\ l' = l + 1
    /\ UNCHANGED <<tid, st, mem, viol>>

Next == Step \/ Finish
Spec == Init /\ [][Next]_vars

\* every trace was consumed to its end (acceptance is decided by `viol`, not by getting stuck)
AllConsumed == TLCGet("stats").diameter >= 1
=============================================================================
