SPECIFICATION Spec
CONSTANTS
  Los <- QLos
  His <- QHis
  Span = 3
INVARIANT LandsInBox
INVARIANT IdentityInside
INVARIANT ClipNearestFace
INVARIANT ReflectCongruent
INVARIANT ToroidalCongruent
INVARIANT Determined
POSTCONDITION WriteTable
CHECK_DEADLOCK FALSE
