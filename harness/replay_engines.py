"""C12 (selection step) / C13 (decision level): replay the Engines.tla table on Individual ordering,
Population.topk, BaseSEA.select_new_population, TournamentSelection and the replacement step of DE.run / SHADE.run."""
from __future__ import annotations

import json
import sys
import warnings

import numpy as np

from pyhms.core.individual import Individual
from pyhms.core.population import Population
from pyhms.core.problem import FunctionProblem
from pyhms.demes.single_pop_eas.de import DE, SHADE
from pyhms.demes.single_pop_eas.sea import SEA, TournamentSelection

warnings.filterwarnings("ignore")
BOUNDS = np.array([[-10.0, 10.0], [-10.0, 10.0]])


class Scripted:
    """objective whose k-th call returns the k-th scripted value"""

    def __init__(self):
        self.values, self.k = [], 0

    def __call__(self, x):
        v = self.values[self.k]
        self.k += 1
        return v


# two concretisations of the ranks: well separated values, and nearly equal values around a large offset
# (differences far below the relative tolerance of np.isclose: a decision must still follow the exact order)
BASE, GAP = 5.0, 0.5


def fit(rank, maximize):
    g = BASE + GAP * rank
    return -g if maximize else g


def rank_of(f, maximize):
    g = -f if maximize else f
    return int(round((g - BASE) / GAP))


def pop_of(ranks, prob, maximize, tag):
    genomes = np.array([[tag + 0.01 * i, -tag - 0.02 * i] for i in range(len(ranks))], dtype=np.float64)
    return Population(genomes, np.array([fit(r, maximize) for r in ranks], dtype=np.float64), prob)


def main(table_path, out_path):
    global BASE, GAP
    parts = []
    for BASE, GAP in ((5.0, 0.5), (1024.0, 2.0 ** -14)):
        parts.append(run_table(table_path, f"values={BASE}+{GAP}*rank"))
    out = parts[0]
    for p in parts[1:]:
        for k in ("evaluations", "nontrivial", "skipped"):
            out[k] += p[k]
        out["violations"] += p["violations"]
    out["violations"] = out["violations"][:500]
    json.dump(out, open(out_path, "w"))


def run_table(table_path, tag):
    viol, n_eval, distinct, samples, skipped = [], 0, 0, [], 0
    nontrivial = 0

    percl = {}

    def bad(clause, sig, det):
        percl[clause] = percl.get(clause, 0) + 1
        if percl[clause] <= 120:
            viol.append({"clause": clause, "signature": sig, "detail": det})

    for li, line in enumerate(open(table_path)):
        if not line.strip():
            continue
        c = json.loads(line)
        distinct += 1
        op = c["op"]
        res_by_dir = {}
        for maximize in (False, True):
            obj = Scripted()
            prob = FunctionProblem(obj, bounds=BOUNDS, maximize=maximize)
            sig = f"op={op} maximize={maximize} {tag} " + " ".join(f"{k}={v}" for k, v in c.items() if k in ("parents", "offspring", "k", "a", "b"))
            n_eval += 1
            try:
                if op == "order":
                    a = Individual(np.zeros(2), prob, fit(c["a"], maximize))
                    b = Individual(np.ones(2), prob, fit(c["b"], maximize))
                    got = [bool(a < b), bool(a == b), bool(a > b)]
                    if got != [c["lt"], c["eq"], (not c["lt"]) and (not c["eq"])]:
                        bad("C13_IndividualOrdering", sig, {"got": got})
                    best = max([a, b])
                    if rank_of(best.fitness, maximize) != min(c["a"], c["b"]):
                        bad("C13_BestQuery", sig, {"got": best.fitness})
                    res_by_dir[maximize] = got
                elif op == "topk":
                    nontrivial += 1
                    p = pop_of(c["parents"], prob, maximize, 1.0)
                    r = p.topk(c["k"])
                    got = sorted(rank_of(f, maximize) for f in r.fitnesses)
                    if got != c["expect"]:
                        bad("C12_TopK", sig, {"got": got, "expected": c["expect"]})
                    res_by_dir[maximize] = got
                elif op == "select":
                    nontrivial += 1
                    p = pop_of(c["parents"], prob, maximize, 1.0)
                    o = pop_of(c["offspring"], prob, maximize, 5.0)
                    sea = SEA(variational_operators_pipeline=[], k_elites=c["k"])
                    r = sea.select_new_population(p, o)
                    got = sorted(rank_of(f, maximize) for f in r.fitnesses)
                    if got != c["expect"]:
                        # the exact (mu + k) survivor set is mechanism; C12 itself asks for "best never worse" and the size
                        bad("Info_MuPlusKModel", sig, {"got": got, "expected": c["expect"]})
                    if got and min(got) > min(c["parents"]):
                        bad("C12_BestNotWorse", sig, {"got": got, "parents": c["parents"]})
                    allg = {g.tobytes() for g in p.genomes} | {g.tobytes() for g in o.genomes}
                    if any(g.tobytes() not in allg for g in r.genomes) or r.size != p.size:
                        bad("C12_PopSize", sig, {"size": int(r.size)})
                    res_by_dir[maximize] = got
                elif op == "tournament":
                    p = pop_of(c["parents"], prob, maximize, 1.0)
                    seed = 1000 + li
                    np.random.seed(seed)
                    r = TournamentSelection()(p)
                    np.random.seed(seed)
                    n = p.size
                    pairs = np.random.randint(0, n, (n, 2))
                    exp_idx = [c["win"][a][b] - 1 for a, b in pairs]
                    got_idx = [int(np.where((p.genomes == g).all(axis=1))[0][0]) for g in r.genomes]
                    if got_idx != exp_idx:
                        # depends on how the operator draws its pairs: mechanism, not property (C13 = direction symmetry below)
                        bad("Info_TournamentModel", sig, {"got": got_idx, "expected": exp_idx, "pairs": pairs.tolist()})
                    res_by_dir[maximize] = got_idx
                elif op == "replace":
                    n = len(c["parents"])
                    if n < 4:
                        skipped += 1
                        continue
                    nontrivial += 1
                    for eng_name in ("DE", "SHADE"):
                        obj.values = [fit(r, maximize) for r in c["offspring"]]
                        obj.k = 0
                        parents = [Individual(np.array([0.5 * i, -0.25 * i - 1.0]), prob, fit(r, maximize)) for i, r in enumerate(c["parents"])]
                        np.random.seed(7 + li)
                        eng = DE(use_dither=False, crossover_probability=1.0, f=0.8) if eng_name == "DE" else SHADE(2, n)
                        new = eng.run(parents)
                        if obj.k != n:
                            skipped += 1      # a trial coincided with its parent: the script is not aligned
                            continue
                        got = sorted(rank_of(i.fitness, maximize) for i in new)
                        if got != sorted(c["expect"]):
                            bad("C12_OneToOneReplacement", sig + f" engine={eng_name}", {"got": got, "expected": sorted(c["expect"])})
                        ng = {i.genome.tobytes() for i in new}
                        replaced = sorted(k + 1 for k, i in enumerate(parents) if i.genome.tobytes() not in ng)   # 1-based like TLA+
                        # every strictly better trial wins, no strictly worse one does; ties are left to the engine
                        if not (set(c["swins"]) <= set(replaced) <= set(c["wins"])) or len(new) != n:
                            bad("C12_OneToOneReplacement", sig + f" engine={eng_name}",
                                {"replaced_parents": replaced, "must_win": sorted(c["swins"]), "may_win": sorted(c["wins"]), "size": len(new)})
                        res_by_dir[(maximize, eng_name)] = [got, replaced]
            except Exception as ex:  # noqa: BLE001
                bad("C12_SelectionRaises" if op in ("select", "replace", "topk") else "C13_SelectionRaises", sig, {"exception": repr(ex)[:300]})
        # C13: same decision on both formulations
        if op in ("order", "topk", "select", "tournament") and len(res_by_dir) == 2 and res_by_dir[False] != res_by_dir[True]:
            bad("C13_SelectionDirectionSymmetry", f"op={op} case={json.dumps({k: v for k, v in c.items() if k not in ('win', 'expect')})}",
                {"minimize": res_by_dir[False], "maximize": res_by_dir[True]})
        if op == "replace":
            for e in ("DE", "SHADE"):
                if (False, e) in res_by_dir and (True, e) in res_by_dir and res_by_dir[(False, e)] != res_by_dir[(True, e)]:
                    bad("C13_SelectionDirectionSymmetry", f"op=replace engine={e} parents={c['parents']} offspring={c['offspring']}", {})
        if len(samples) < 4 and op in ("select", "replace") and len(c["parents"]) == 4 and li % 977 == 0:
            samples.append({k: v for k, v in c.items()})
    return {"evaluations": n_eval, "distinct": distinct, "nontrivial": nontrivial, "skipped": skipped,
            "violations": viol, "samples": samples or [c]}


if __name__ == "__main__":
    main(sys.argv[1], sys.argv[2])
