"""Stage: Apalache discharges the inductive invariant of the level-limit counter abstraction (unbounded L)."""
from __future__ import annotations

import shutil
import subprocess
from pathlib import Path

from .common import SPEC, MachineryError
from .stages import stage


def levellimit_inductive(tier: str) -> dict:
    return inductive("LevelLimitInd", "apalache_levellimit", tier)


def shade_inductive(tier: str) -> dict:
    return inductive("ShadeInd", "apalache_shade", tier)


def inductive(module: str, stage_name: str, tier: str) -> dict:
    def build(d: Path) -> dict:
        exe = shutil.which("apalache-mc")
        if exe is None:
            return {"available": False}
        res = {}
        for name, args in (("base", ["--init=Init", "--length=0"]), ("step", ["--init=IndInit", "--length=1"])):
            out = d / name
            p = subprocess.run([exe, "check", "--cinit=CInit", "--inv=IndInv", f"--out-dir={out}"] + args +
                               [str(SPEC / (module + ".tla"))], cwd=str(d), capture_output=True, text=True, timeout=600)
            txt = p.stdout + p.stderr
            shutil.rmtree(out, ignore_errors=True)
            if "The outcome is: NoError" in txt:
                res[name] = "NoError"
            elif "The outcome is: Error" in txt or "violat" in txt.lower():
                res[name] = "Violation"
            else:
                raise MachineryError("apalache failed:\n" + txt[-1500:])
        return {"available": True, "base": res["base"], "step": res["step"]}
    return stage(stage_name, tier, build)
