"""Stage: pair corpus (twins for C13, repeats for C14) compared by PairTrace.tla."""
from __future__ import annotations

import json
from pathlib import Path

from .common import MachineryError, run_py, seed
from .stages import stage


def pairs_stage(tier: str) -> dict:
    def build(d: Path) -> dict:
        p = run_py(["-m", "harness.pairs_build", str(d), str(seed()), tier], timeout=7200,
                   env={"OMP_NUM_THREADS": "1", "OPENBLAS_NUM_THREADS": "1", "VERIF_SCRATCH": str(d)})
        if p.returncode != 0:
            raise MachineryError("pair corpus build failed:\n" + p.stdout[-2000:] + p.stderr[-3000:])
        out = json.loads((d / "summary.json").read_text())
        out.pop("specs", None)
        return out
    return stage("pairs", tier, build)
