"""Subprocess entry (C19): restore a snapshot in a fresh interpreter, run the tree on to its end under the recorder copy that
was pickled with it, print the continuation trace."""
from __future__ import annotations

import json
import sys

from pyhms.tree import DemeTree

from . import configs  # noqa: F401  (user-defined classes of the corpus must be importable, as in any user's process)
from .recorder import TooManyConsults


def main(path: str) -> None:
    tree = DemeTree.pickle_load(path)
    rec = tree._gsc.rec
    rec.tree = tree
    digest = rec.state_digest(tree)
    rec.dump_at = None
    rec.dumped = True
    dump_event = len(rec.events)
    status = "ok"
    try:
        tree.run()
        rec.emit({"e": "end", "snap": rec.snap(tree, full=True)})
    except TooManyConsults:
        rec.emit({"e": "abort", "why": "stalled", "snap": rec.snap(tree, full=True)})
        status = "stalled"
    except Exception as ex:  # noqa: BLE001
        rec.events.append({"e": "crash", "b": [], "why": repr(ex)[:200]})
        status = "crash"
    json.dump({"digest": digest, "status": status, "events": rec.finish(), "dump_event": dump_event}, sys.stdout)


if __name__ == "__main__":
    main(sys.argv[1])
