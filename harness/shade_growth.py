"""Growth (beyond the listed properties): record generations of real SHADE objects and let TLC check them against
Shade.tla (spec/ShadeTrace.tla).  Observation is pass-through: `_update_memory` is wrapped on the instance to learn the
success mask; the memory arrays, the index and the archive size are read before and after each run()."""
from __future__ import annotations

import json
import random
import sys

import numpy as np


def record(seed: int, n_traces: int) -> list[dict]:
    from pyhms.core.individual import Individual
    from pyhms.core.problem import FunctionProblem
    from pyhms.demes.single_pop_eas.de import SHADE
    r = random.Random(seed * 7 + 3)
    fns = {
        "sphere": lambda x: float(np.sum(x * x)),
        "plateau": lambda x: float(np.floor(4.0 * np.sum(x * x))),      # many ties: zero improvement weights
        "const": lambda x: 1.0,                                          # every trial ties with its parent
        "ridge": lambda x: float(np.sum(np.abs(x)) + 3.0 * abs(x[0])),
    }
    out = []
    for t in range(n_traces):
        H = r.choice([1, 2, 3, 5, 8])
        N = r.choice([4, 5, 6, 8, 12, 20])
        dim = r.choice([1, 2, 5])
        fn = r.choice(sorted(fns))
        maximize = r.random() < 0.4
        gens = r.choice([10, 25, 60])
        f = fns[fn]
        prob = FunctionProblem((lambda x, f=f: -f(x)) if maximize else f, bounds=np.array([[-2.0, 3.0]] * dim), maximize=maximize)
        np.random.seed(r.randrange(2 ** 31))
        random.seed(r.randrange(2 ** 31))
        shade = SHADE(H, N)
        seen = {"s": 0}
        inner = shade._update_memory

        def spy(cr, f_, fit, cfit, idx, inner=inner, seen=seen):
            seen["s"] = int(np.sum(idx))
            return inner(cr, f_, fit, cfit, idx)
        shade._update_memory = spy
        pop = [Individual(np.random.uniform(-2.0, 3.0, dim), problem=prob) for _ in range(N)]
        Individual.evaluate_population(pop)
        events = []
        for g in range(gens):
            k0 = int(shade._k)
            a0 = 0 if shade._archive is None else int(shade._archive.size)
            mf0, mcr0 = shade._m_f.copy(), shade._m_cr.copy()
            seen["s"] = 0
            pop = shade.run(pop)
            mf1, mcr1 = shade._m_f, shade._m_cr
            events.append({
                "k0": k0, "a0": a0, "k1": int(shade._k), "a1": 0 if shade._archive is None else int(shade._archive.size),
                "s": seen["s"],
                "wf": [int(i) for i in np.nonzero(mf0 != mf1)[0]], "wcr": [int(i) for i in np.nonzero(mcr0 != mcr1)[0]],
                "fok": int(bool(np.all((mf1 > 0) & (mf1 <= 1)))), "crok": int(bool(np.all((mcr1 >= 0) & (mcr1 <= 1)))),
                "n1": len(pop),
            })
        out.append({"name": f"shade{t}:H={H},N={N},dim={dim},fn={fn},max={int(maximize)}", "H": H, "N": N, "events": events})
    return out


if __name__ == "__main__":
    traces = record(int(sys.argv[2]), int(sys.argv[3]))
    json.dump(traces, open(sys.argv[1], "w"))
    print(json.dumps({"traces": len(traces), "events": sum(len(t["events"]) for t in traces),
                      "with_success": sum(1 for t in traces for e in t["events"] if e["s"] > 0),
                      "without_success": sum(1 for t in traces for e in t["events"] if e["s"] == 0),
                      "archive_cut": sum(1 for t in traces for e in t["events"] if e["s"] > 0 and e["a0"] + e["s"] > t["H"])}))
