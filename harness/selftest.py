"""`./check selftest`: demonstrates that the specification is bound to the code.

(1) trace corruption: fields of recorded traces are altered (an active flag, an evaluation counter, a sprout seed's
    provenance atom, an inbox atom, a dropped consult, a hibernation flag, a report line) and HMSTrace.tla must reject
    each corrupted trace with the expected clause while accepting the original;
(2) code mutation: textual mutants applied to a scratch copy of /repo/pyhms (outside /repo and /verif, removed
    afterwards) must be caught by the named property's check.
Exit 0 = every corruption / mutant was caught."""
from __future__ import annotations

import copy
import json
import os
import shutil
import subprocess
import sys
import tempfile
from pathlib import Path

from .common import REPO, VERIF, cache_dir, run_py
from .tracecheck import validate

SPECS = [
    {"name": "st_a", "seed": 3, "dim": 2, "box": "sym", "fn": "multi", "maximize": False, "reports": True,
     "levels": [{"engine": "SEA", "pop": 6, "gens": 2}, {"engine": "DE", "pop": 5, "gens": 1}, {"engine": "CMA", "gens": 2}],
     "gsc": {"kind": "MetaepochLimit", "n": 5}, "sprout": {"kind": "simple", "far": 0.02, "limit": 2}, "hibernation": True},
    {"name": "st_b", "seed": 4, "dim": 2, "box": "asym", "fn": "funnels", "maximize": True,
     "levels": [{"engine": "DE", "pop": 6, "gens": 2, "lsc": {"kind": "MetaepochLimit", "n": 4}}, {"engine": "LOCAL"}],
     "gsc": {"kind": "SingularEvalLimit", "n": 120}, "sprout": {"kind": "nbc", "gen": 1.0, "trunc": 1.0, "fil": 0.5, "limit": 3}},
]


def _first(evs, pred):
    for i, e in enumerate(evs):
        if pred(e):
            return i
    raise LookupError


def corruptions(tr):
    evs = tr["events"]
    out = []

    def mk(name, expect, f):
        t = copy.deepcopy(tr)
        t["name"] = tr["name"] + ":" + name
        try:
            f(t["events"])
        except LookupError:
            return
        out.append((t, expect))

    def flip_active(e):
        i = _first(e, lambda x: x["e"] == "gsc" and x["by"] == "step" and len(x["snap"]["demes"]) > 1)
        e[i]["snap"]["demes"][1]["act"] ^= 1
    mk("active_flag", {"C06_StopCauses", "C06_InactiveFrozen"}, flip_active)

    def bump_evals(e):
        i = _first(e, lambda x: x["e"] == "gsc" and x["by"] == "deme")
        e[i]["snap"]["demes"][0]["ev"] += 1
        e[i]["snap"]["tev"] += 1
    mk("evaluation_counter", {"C03_DemeCountEqualsCalls"}, bump_evals)

    def seed_not_from_parent(e):
        i = _first(e, lambda x: x["e"] == "sprout" and x["ret"])
        e[i]["ret"][0][1][0][4] = 0
        e[i]["ret"][0][1][0][5] = 0
    mk("seed_provenance", {"C07_SeedFromParentPopulation"}, seed_not_from_parent)

    def out_of_box(e):
        i = _first(e, lambda x: x["b"])
        e[i]["b"][0][2][0][2] = 0
    mk("inbox_atom", {"C01_EvalInBox"}, out_of_box)

    def drop_consult(e):
        i = _first(e, lambda x: x["e"] == "gsc" and x["by"] == "deme" and x["b"])
        del e[i]
    mk("dropped_consult", {"C03_DemeCountEqualsCalls", "C06_SteppedExactlyOnce"}, drop_consult)

    def hib_flag(e):
        i = _first(e, lambda x: x["e"] == "gsc" and x["by"] == "run" and x["snap"]["mc"] >= 2)
        e[i]["snap"]["demes"][0]["hib"] ^= 1
    mk("hibernation_flag", {"C18_HibIffNoSproutInLastRound", "C18_OffMeansNever"}, hib_flag)

    def too_many_active(e):
        i = _first(e, lambda x: x["e"] == "gsc" and sum(1 for d in x["snap"]["demes"] if d["lvl"] == 1 and d["act"]) >= 2)
        for d in e[i]["snap"]["demes"]:
            if d["lvl"] == 1:
                d["act"] = 1
        lvl1 = [d for d in e[i]["snap"]["demes"] if d["lvl"] == 1]
        if len(lvl1) <= e[0]["cfg"]["limit"]:
            raise LookupError
    mk("census_over_limit", {"C08_ActiveWithinLimit"}, too_many_active)

    def report_line(e):
        i = _first(e, lambda x: x["e"] == "report" and x["rep"]["lines"])
        e[i]["rep"]["lines"][0]["ev"] += 3
    mk("report_line", {"C20_DemeLines"}, report_line)

    def worse_best(e):
        i = _first(e, lambda x: x["e"] == "gsc" and x["by"] == "run" and x["snap"]["mc"] >= 2)
        e[i]["snap"]["best"][1] += 5
    mk("reported_best", {"C04_TreeBestIsMaxOfHistory", "C04_Monotone", "C04_BestEverObserved"}, worse_best)

    def untrue_fitness(e):
        i = _first(e, lambda x: x.get("snap", {}).get("full") and any(d.get("new") for d in x["snap"]["demes"]))
        for d in e[i]["snap"]["demes"]:
            if d.get("new"):
                d["new"][0][0][3] = 0
                return
    mk("stored_fitness", {"C02_TrueFitness"}, untrue_fitness)
    return out


MUTANTS = [  # (name, file, old, new, property that must flag it)
    ("levellimit_off_by_one", "pyhms/sprout/sprout_filters.py", "cutoff = max(self.limit - currently_active_level_below, 0)",
     "cutoff = max(self.limit - currently_active_level_below + 1, 0)", "C08"),
    ("ea_ignores_gsc", "pyhms/demes/ea_deme.py", "                self._active = False\n                self.log(\"EA Deme finished due to GSC\")\n                return",
     "                self.log(\"EA Deme finished due to GSC\")", "C05"),
    ("no_elitism", "pyhms/demes/single_pop_eas/sea.py", "return offspring_population.merge(top_k_parent_population).topk(parent_population.size)",
     "return offspring_population", "C12"),
    ("cutoff_off_by_one", "pyhms/core/problem.py", "if self._n_evals >= self._eval_cutoff:", "if self._n_evals > self._eval_cutoff:", "C16"),
    ("toroidal_no_clip", "pyhms/demes/single_pop_eas/common.py", "np.where(is_inside, genomes, np.clip(repaired_genomes, lower_bounds, upper_bounds))",
     "repaired_genomes", "C17"),
]


def run_selftest(tier: str) -> int:
    from .corpus import run_specs
    d = cache_dir("quick") / "selftest"
    d.mkdir(parents=True, exist_ok=True)
    p = run_py(["-c", "import json,sys\nfrom harness.corpus import run_specs\nfrom harness.selftest import SPECS\n"
                      f"json.dump(run_specs(SPECS, workers=2), open(r'{d / 'runs.json'}','w'))"],
               env={"OMP_NUM_THREADS": "1"})
    if p.returncode != 0:
        print("MACHINERY-FAILURE selftest: could not record traces\n" + p.stderr[-2000:], file=sys.stderr)
        return 2
    runs = json.loads((d / "runs.json").read_text())
    cases = []
    for r in runs:
        cases.append(({"name": r["name"], "events": r["events"]}, set()))
        cases += corruptions({"name": r["name"], "events": r["events"]})
    v = validate([c[0] for c in cases], d / "tlc", tag="selftest")
    failed = 0
    for (tr, expect), res in zip(cases, v["results"]):
        got = {x[0] for x in res["viol"]} - {"RunStalled"}
        if not expect:
            ok = not got
            print(f"{'ok  ' if ok else 'FAIL'} original trace {tr['name']}: accepted={not got} {sorted(got)[:4]}")
        else:
            ok = bool(got & expect)
            print(f"{'ok  ' if ok else 'FAIL'} corrupted {tr['name']}: rejected with {sorted(got)[:5]} (expected one of {sorted(expect)})")
        failed += 0 if ok else 1
    if tier == "thorough" or os.environ.get("VERIF_SELFTEST_MUTANTS") == "1":
        for name, file, old, new, prop in MUTANTS:
            scratch = Path(tempfile.mkdtemp(prefix="pyhms-mut-"))
            try:
                shutil.copytree(REPO / "pyhms", scratch / "pyhms")
                f = scratch / file
                s = f.read_text()
                if old not in s:
                    print(f"SKIP mutant {name}: pattern not present in the current tree")
                    continue
                f.write_text(s.replace(old, new, 1))
                env = dict(os.environ, VERIF_REPO=str(scratch), VERIF_KEEP_WORK="1")
                p = subprocess.run([str(VERIF / "check"), prop, "--tier", "quick"], env=env, capture_output=True, text=True)
                caught = p.returncode == 1 and "VIOLATION" in p.stdout
                print(f"{'ok  ' if caught else 'FAIL'} mutant {name}: check {prop} exit {p.returncode}")
                failed += 0 if caught else 1
            finally:
                shutil.rmtree(scratch, ignore_errors=True)
    print(f"selftest: {failed} failure(s)")
    return 1 if failed else 0
