"""Pair corpus: twin runs (C13), repeat runs (C14).  Built in a subprocess (pairs_build.py)."""
from __future__ import annotations

import copy
import random

from .corpus import _level, random_spec

STABLE_ROOT = ["DE", "DEd", "SHADE", "LHS", "SOBOL"]
STABLE_CHILD = ["DE", "DEd", "SHADE", "CMA", "CMAw", "CMAs", "LOCAL", "LHS", "SOBOL", "CMA", "LOCAL"]


def twin_spec(r: random.Random, idx: int) -> dict:
    """index-stable engines only; local stop conditions that do not read raw fitness values"""
    nlevels = r.choice([1, 2, 2, 3, 3])
    engines = [r.choice(STABLE_ROOT)] + [r.choice(STABLE_CHILD) for _ in range(nlevels - 1)]
    levels = []
    for d, e in enumerate(engines):
        lv = _level(r, e, d, nlevels, False)
        k = lv["lsc"]["kind"]
        if k in ("FitnessSteadiness", "DontRun"):
            lv["lsc"] = {"kind": r.choice(["DontStop", "MetaepochLimit"]), "n": r.choice([2, 3])}
        levels.append(lv)
    spec = {"name": f"twin{idx}", "seed": r.randrange(1, 10 ** 6), "dim": r.choice([2, 3]),
            "box": r.choice(["sym", "asym", "unit", "decimal"]),
            "fn": r.choice(["sphere", "multi", "funnels", "linear", "offset", "plateau", "plateau", "zero", "penalty", "penalty"]),      # (not "partial": NaN values are not mirror-symmetric in pyhms - topk / replacement on NaN)
            "levels": levels, "hibernation": r.random() < 0.4,
            "gsc": r.choice([{"kind": "MetaepochLimit", "n": r.choice([3, 4, 5])},
                             {"kind": "SingularEvalLimit", "n": r.choice([60, 150])}]),
            "max_consults": 600}
    limit = r.choice([1, 2, 3])
    spec["sprout"] = r.choice([
        {"kind": "simple", "far": r.choice([0.02, 0.1, 0.3]), "limit": limit},
        {"kind": "nbc", "gen": r.choice([1.0, 2.0]), "trunc": r.choice([0.7, 1.0]), "fil": r.choice([0.5, 2.0]), "limit": limit},
        {"kind": "composed", "generator": "nbc", "gen": 1.0, "trunc": 1.0, "deme_filters": [["demelimit", 2]],
         "tree_filters": [["levellimit", limit], ["skipsame"]]},
    ])
    return spec


def twin_pairs(seed: int, n: int) -> list[tuple[dict, dict]]:
    r = random.Random(seed * 7 + 13)
    out = []
    for i in range(n):
        a = twin_spec(r, i)
        a["maximize"] = False
        b = copy.deepcopy(a)
        b["maximize"] = True
        b["name"] = a["name"] + "_max"
        if i % 2 == 1:
            b["retarget_problem"] = True      # the mirror's configuration is derived from one built for the other direction
        out.append((a, b))
    return out


def hash_sensitive_spec(r: random.Random, i: int) -> dict:
    """configurations in which several demes are created per round (ids, seeds and iteration orders of sets / dicts
    then matter): the ones most likely to depend on the interpreter's hash seed"""
    child = r.choice([{"engine": "CMA", "gens": 2}, {"engine": "CMAw", "gens": 2}, {"engine": "DE", "pop": 5, "gens": 1},
                      {"engine": "CMA", "gens": 1, "lsc": {"kind": "MetaepochLimit", "n": 2}}])
    levels = [{"engine": r.choice(["SEA", "DE", "SHADE"]), "pop": 12, "gens": 1}, child]
    if r.random() < 0.4:
        levels.append({"engine": r.choice(["CMA", "LOCAL"]), "gens": 1})
    return {"name": f"hs{i}", "seed": r.randrange(1, 10 ** 6), "dim": 2, "box": "sym", "fn": r.choice(["funnels", "multi"]),
            "maximize": r.random() < 0.3, "levels": levels, "hibernation": r.random() < 0.3,
            "gsc": {"kind": "MetaepochLimit", "n": 4},
            "sprout": {"kind": "composed", "generator": "nbc", "gen": 1.0, "trunc": 1.0,
                       "deme_filters": [["demelimit", 3]], "tree_filters": [["levellimit", r.choice([4, 6])]]}}


def nan_spec(r: random.Random, i: int) -> dict:
    """an objective that is NaN on part of the box: individuals that cannot be compared are ordered with the help of
    Python's global generator, which a seeded run has to control as well"""
    root = r.choice([{"engine": "SOBOL", "pop": 16}, {"engine": "LHS", "pop": 16}, {"engine": "SEA", "pop": 14, "gens": 1},
                     {"engine": "DE", "pop": 14, "gens": 1}, {"engine": "SEAX", "pop": 14, "gens": 1, "p_crossover": 0.7}])
    child = r.choice([{"engine": "SEA", "pop": 6, "gens": 1}, {"engine": "DE", "pop": 6, "gens": 1},
                      {"engine": "SEAX", "pop": 6, "gens": 1, "p_crossover": 0.7}])
    child["lsc"] = {"kind": "MetaepochLimit", "n": 3}
    return {"name": f"nan{i}", "seed": r.randrange(1, 10 ** 6), "dim": 2, "box": r.choice(["sym", "unit"]), "fn": "partial",
            "maximize": False, "levels": [root, child], "hibernation": False, "gsc": {"kind": "MetaepochLimit", "n": 4},
            "sprout": r.choice([{"kind": "nbc", "gen": 1.0, "trunc": 1.0, "fil": 0.5, "limit": 4},
                                {"kind": "composed", "generator": "nbc", "gen": 1.0, "trunc": 1.0,
                                 "deme_filters": [["demelimit", 3]], "tree_filters": [["levellimit", 4]]}]),
            "idlecheck": False}


def repeat_triples(seed: int, n: int, n_sub: int) -> list[tuple[dict, dict, dict | None]]:
    r = random.Random(seed * 11 + 5)
    out = []
    for i in range(n):
        a = (hash_sensitive_spec(r, i) if i < n_sub and i % 2 == 0 else
             nan_spec(r, i) if i % 6 == 5 else random_spec(r, 10000 + i))
        a["name"] = f"rep{i}"
        a.pop("maystall", None)
        a["max_consults"] = min(int(a.get("max_consults", 600)), 600)
        b = copy.deepcopy(a)
        b["scramble"] = 17 + i
        b["name"] = a["name"] + "_scrambled"
        c = None
        if i < n_sub:
            c = copy.deepcopy(a)
            c["subprocess_hashseed"] = 1 + (i * 7919) % 4000
            c["name"] = a["name"] + "_subprocess"
        out.append((a, b, c))
    return out


def history_pairs(seed: int, n: int) -> list[tuple[dict, dict]]:
    """(run in a fresh interpreter, the same run in a process that has optimised other objectives before - same seed, same
    box, memoising problems): 'regardless of ... the process they run in'"""
    r = random.Random(seed * 13 + 1)
    out = []
    for i in range(n):
        levels = [r.choice([{"engine": "SEA", "pop": 8, "gens": 1}, {"engine": "DE", "pop": 8, "gens": 1}, {"engine": "SOBOL", "pop": 8}]),
                  r.choice([{"engine": "CMA", "gens": 2}, {"engine": "DE", "pop": 5, "gens": 1}, {"engine": "LOCAL", "maxiter": 3}])]
        levels[1]["lsc"] = {"kind": "MetaepochLimit", "n": 3} if levels[1]["engine"] != "LOCAL" else {"kind": "DontStop"}
        a = {"name": f"hist{i}", "seed": r.randrange(1, 10 ** 6), "dim": 2, "box": r.choice(["sym", "unit"]), "fn": "funnels",
             "maximize": False, "levels": levels, "hibernation": False, "gsc": {"kind": "MetaepochLimit", "n": 4},
             "sprout": {"kind": "simple", "far": 0.03, "limit": 2}, "use_cache": i % 2 == 0, "subprocess_hashseed": 11 + i}
        b = copy.deepcopy(a)
        b.pop("subprocess_hashseed")
        b["name"] = a["name"] + "_after_others"
        b["prelude"] = [dict(copy.deepcopy(a), fn=f, name="prelude") for f in ("sphere", "multi")]
        for p in b["prelude"]:
            p.pop("subprocess_hashseed", None)
        out.append((a, b))
    return out


def look_spec(r: random.Random, i: int) -> dict:
    """configurations in which demes rest and come back (hibernation, short-lived children, several levels): where an
    accessor that caches or mutates would make later answers depend on when the tree was looked at"""
    nlevels = r.choice([2, 2, 3, 3])
    root = {"engine": r.choice(["SEA", "DE", "SHADE", "SEAX", "ADAPT"]), "pop": r.choice([8, 10, 12]), "gens": r.choice([1, 2]),
            "lsc": {"kind": "DontStop"}}
    if root["engine"] in ("SEA", "SEAX", "ADAPT"):
        root["k_elites"] = 1
        if root["engine"] == "SEAX":
            root["p_crossover"] = 0.7
        if root["engine"] == "ADAPT":
            root["mstep"] = 0.02
    levels = [root]
    for d in range(1, nlevels):
        e = r.choice(["CMA", "SEA", "DE", "CMA", "LOCAL"] if d == nlevels - 1 else ["SEA", "DE", "SHADE"])
        lv = {"engine": e, "lsc": {"kind": "MetaepochLimit", "n": r.choice([1, 2, 2, 3])}}
        if e in ("SEA", "DE", "SHADE"):
            lv.update(pop=r.choice([5, 6, 8]), gens=r.choice([1, 2]))
            if e == "SEA":
                lv["k_elites"] = 1
            if e == "SHADE":
                lv["mem"] = 2
        elif e == "CMA":
            lv["gens"] = r.choice([1, 2, 3])
        else:
            lv["lsc"] = {"kind": "DontStop"}
        levels.append(lv)
    limit = r.choice([1, 1, 2])
    sprout = r.choice([
        {"kind": "simple", "far": r.choice([0.02, 0.1, 0.3]), "limit": limit},
        {"kind": "nbc", "gen": r.choice([1.0, 2.0]), "trunc": r.choice([0.7, 1.0]), "fil": r.choice([0.5, 2.0]), "limit": limit},
    ])
    return {"name": f"look{i}", "seed": r.randrange(1, 10 ** 6), "dim": r.choice([2, 3]), "box": r.choice(["sym", "asym", "unit"]),
            "fn": r.choice(["sphere", "multi", "funnels", "funnels", "offset", "plateau"]), "maximize": r.random() < 0.3,
            "levels": levels, "hibernation": r.random() < 0.8,
            "gsc": {"kind": "MetaepochLimit", "n": r.choice([8, 10, 12, 14])}, "sprout": sprout, "max_consults": 900}


LOOK_SCHEDULES = [[2, 0], [2, 1], [3, 0], [4, 3]]


def look_groups(seed: int, n: int) -> list[tuple[dict, list[dict]]]:
    """(dense run, sparse runs): the same seeded configuration looked at after every metaepoch / only now and then"""
    r = random.Random(seed * 17 + 3)
    out = []
    for i in range(n):
        a = look_spec(r, i)
        a["look"] = "all"
        bs = []
        for sch in LOOK_SCHEDULES:
            b = copy.deepcopy(a)
            b["look"] = sch
            b["name"] = a["name"] + f"_every{sch[0]}p{sch[1]}"
            bs.append(b)
        out.append((a, bs))
    return out
