"""C15 (+ C13 for NBC): replay the NBC.tla tables on NearestBetterClustering, with metamorphic images
(permuted input order, embedding axis / dimension, exact scales incl. spacing 2^-30 around 1.0 and 2^20,
both optimisation directions)."""
from __future__ import annotations

import json
import math
import sys
import warnings

import numpy as np

from pyhms.core.individual import Individual
from pyhms.core.problem import FunctionProblem
from pyhms.utils.clusterization import NearestBetterClustering

warnings.filterwarnings("ignore")

# (dimension, axis, scale, offset, name)
EMBED1 = [(1, 0, 1.0, 0.0, "d1"), (2, 1, 0.5, 0.0, "d2-half"), (3, 0, 1024.0, 0.0, "d3-1024"), (8, 7, 1.0, -3.0, "d8-shift"),
          (2, 0, 2.0 ** -30, 1.0, "converged@1"), (5, 2, 2.0 ** -30, 2.0 ** 20, "converged@2^20")]
EMBED2 = [(2, (0, 1), 1.0, 0.0, "plane"), (4, (0, 2), 0.25, 5.0, "d4-quarter"), (3, (2, 1), 2.0 ** -30, 1.0, "converged@1")]


def problem(maximize, dim):
    return FunctionProblem(lambda x: 0.0, bounds=np.array([[-1e9, 1e9]] * dim), maximize=maximize)


# well separated / nearly equal around a large offset / equal to ~1e-15 relative (different floats all the same)
VALUES = [(3.0, 1.0), (1024.0, 2.0 ** -14), (1024.0, 2.0 ** -40)]
BASE, GAP = VALUES[0]


def fit(rank, maximize):
    g = BASE + GAP * rank
    return -g if maximize else g


def perms(n):
    ident = list(range(n))
    return [ident, ident[::-1], ident[1:] + ident[:1]]


def work(args):
    lines, base_idx, full = args
    viol, n_eval, distinct, samples = [], 0, 0, []
    nontrivial = 0

    percl = {}

    def bad(clause, sig, det):
        percl[clause] = percl.get(clause, 0) + 1      # cap per clause: informational mismatches must not crowd out violations
        if percl[clause] <= 120:
            viol.append({"clause": clause, "signature": sig, "detail": det})

    for li, line in enumerate(lines):
        if not line.strip():
            continue
        c = json.loads(line)
        distinct += 1
        row_idx = base_idx + li
        global BASE, GAP
        BASE, GAP = VALUES[(row_idx // 3) % 3]
        pts = c["pts"]
        n = len(pts)
        factor = c["fn"] / c["fd"]
        trunc = c["tn"] / c["td"]
        one_d = c["fam"] == "nbc1"
        if one_d:
            ok = {json.dumps(sorted(s)) for s in c["ok"]}
            kept_m = (n * c["tn"]) // c["td"] - 1
            exact_arith = kept_m in (1, 2, 4) and c["fd"] in (1, 2)
            strict = (not c["eq"]) or exact_arith
        else:
            ok = {json.dumps(sorted(map(tuple, s))) for s in c["ok"]}
            strict = c["decided"]
        if len(c["ok"]) >= 1 and n >= 3:
            nontrivial += 1
        results = {}
        embeds = EMBED1 if one_d else EMBED2
        if not full:
            # quick tier: one standard embedding (rotating over the rows) and one tightly converged one
            std = [e for e in embeds if not e[4].startswith("converged")]
            conv = [e for e in embeds if e[4].startswith("converged")]
            embeds = [std[row_idx % len(std)], conv[row_idx % len(conv)]]
        for (dim, axis, scale, off, ename) in embeds:
            for maximize in (False, True):
                prob = problem(maximize, dim)
                genomes = []
                for pt in pts:
                    g = np.full(dim, off, dtype=np.float64)
                    if one_d:
                        g[axis] = off + pt["p"] * scale
                    else:
                        g[axis[0]] = off + pt["p"][0] * scale
                        g[axis[1]] = off + pt["p"][1] * scale
                    genomes.append(g)
                for pi, perm in enumerate(perms(n) if full else perms(n)[row_idx % 2::2] + perms(n)[:1 - row_idx % 2]):
                    n_eval += 1
                    if (row_idx + pi) % 3 == 2 and n >= 2:
                        # the population as a (mu, lambda) engine built on the public Individual.clone() leaves it: every
                        # individual is a clone of one ancestor (clones share their uuid), moved and evaluated afterwards
                        anc = Individual(genomes[perm[0]].copy(), prob, fit(pts[perm[0]]["r"], maximize))
                        inds = [anc]
                        for k in perm[1:]:
                            cl = anc.clone()
                            cl.genome = genomes[k].copy()
                            cl.fitness = fit(pts[k]["r"], maximize)
                            inds.append(cl)
                    else:
                        inds = [Individual(genomes[k].copy(), prob, fit(pts[k]["r"], maximize)) for k in perm]
                    back = {id(ind): pts[k]["p"] for ind, k in zip(inds, perm)}
                    sig = (f"family={c['fam']} pts={[(p['p'], p['r']) for p in pts]} factor={c['fn']}/{c['fd']} trunc={c['tn']}/{c['td']} "
                           f"embed={ename} maximize={maximize} order={perm}")
                    try:
                        nbc = NearestBetterClustering(inds, factor, trunc)
                        seeds = nbc.cluster()
                        dists = sorted(float(d) for d in nbc.distances)
                    except Exception as ex:  # noqa: BLE001
                        bad("C15_ExactSeeds", sig, {"exception": repr(ex)[:200]})
                        continue
                    try:
                        got = sorted(back[id(s)] if one_d else tuple(back[id(s)]) for s in seeds)
                    except KeyError:
                        bad("C15_ExactSeeds", sig, {"problem": "returned an individual that is not part of the input"})
                        continue
                    gk = json.dumps(got)
                    results[(ename, maximize, pi)] = gk
                    if len(set(map(str, got))) != len(got):
                        bad("C15_ExactSeeds", sig, {"got": got, "problem": "duplicate seeds"})
                    if strict and gk not in ok:
                        bad("C15_ExactSeeds", sig, {"got": got, "acceptable": sorted(ok)[:5]})
                    if one_d and c["dist"] != [[-1, -1]]:
                        exp = sorted(d * scale for _, d in c["dist"])
                        if len(exp) != len(dists) or any(abs(a - b) > 4 * math.ulp(max(abs(off) + MaxPos * scale, b)) for a, b in zip(dists, exp)):
                            bad("Info_NBCDistances", sig, {"got": dists, "expected": exp})
                    if not one_d:
                        exp = sorted(math.sqrt(d2) * scale for _, d2 in c["dist"])
                        if len(exp) != len(dists) or any(abs(a - b) > 1e-9 * max(b, scale) + 8 * math.ulp(abs(off) + 4 * scale) for a, b in zip(dists, exp)):
                            bad("Info_NBCDistances", sig, {"got": dists, "expected": exp})
                    if len(samples) < 4 and n >= 4 and len(got) >= 2 and pi == 0 and not maximize:
                        samples.append({"row": {k: v for k, v in c.items() if k != "ok"}, "acceptable": c["ok"][:3], "embed": ename, "got": got})
        # metamorphic: when the definition is deterministic (one acceptable result) every image must agree
        if strict and len(ok) == 1 and len(set(results.values())) > 1:
            bad("C15_MetamorphicInvariance", f"family={c['fam']} pts={[(p['p'], p['r']) for p in pts]} factor={c['fn']}/{c['fd']} trunc={c['tn']}/{c['td']}",
                {"results": sorted(set(results.values()))[:4]})
        if strict and len(ok) == 1:
            for key_, v in results.items():
                mirror = (key_[0], not key_[1], key_[2])
                if mirror in results and results[mirror] != v:
                    bad("C13_NBCDirectionSymmetry", f"family={c['fam']} pts={[(p['p'], p['r']) for p in pts]} embed={key_[0]}",
                        {"minimize": results[(key_[0], False, key_[2])], "maximize": results[(key_[0], True, key_[2])]})
                    break
    return {"evaluations": n_eval, "distinct": distinct, "nontrivial": nontrivial, "violations": viol, "samples": samples}


def main(table_path, out_path):
    import multiprocessing as mp
    import os
    full = os.environ.get("VERIF_TIER_FULL") == "1"
    lines = open(table_path).read().splitlines()
    k = 400
    chunks = [(lines[i:i + k], i, full) for i in range(0, len(lines), k)]
    with mp.get_context("fork").Pool(14) as pool:
        parts = pool.map(work, chunks)
    out = {"evaluations": 0, "distinct": 0, "nontrivial": 0, "violations": [], "samples": []}
    for p in parts:
        for key_ in ("evaluations", "distinct", "nontrivial"):
            out[key_] += p[key_]
        out["violations"] += p["violations"]
        out["samples"] += p["samples"]
    out["violations"] = out["violations"][:600]
    out["samples"] = out["samples"][:4]
    json.dump(out, open(out_path, "w"))


MaxPos = 8

if __name__ == "__main__":
    main(sys.argv[1], sys.argv[2])
