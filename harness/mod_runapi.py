"""Stage: black-box runs of DemeTree.run() / hms() with unwrapped library objects, validated by RunAPI.tla."""
from __future__ import annotations

import json
from pathlib import Path

from .common import MachineryError, run_py, seed
from .stages import stage


def runapi_stage(tier: str) -> dict:
    def build(d: Path) -> dict:
        p = run_py(["-m", "harness.runapi_build", str(d), str(seed()), tier], timeout=7200,
                   env={"OMP_NUM_THREADS": "1", "OPENBLAS_NUM_THREADS": "1"})
        if p.returncode != 0:
            raise MachineryError("runapi stage failed:\n" + p.stdout[-2000:] + p.stderr[-3000:])
        return json.loads((d / "summary.json").read_text())
    return stage("runapi", tier, build)


def runapi_violations(pid: str, tier: str):
    from .common import Violation
    rs = runapi_stage(tier)
    viols = []
    for r in rs["runs"]:
        seen = set()
        for clause, x in r["viol"]:
            if clause.startswith(pid + "_") and clause not in seen:
                seen.add(clause)
                viols.append(Violation(pid, clause, f"{clause} unwrapped run={r['name']} event/detail={x}", {"run": r["name"]}))
    for e in rs["errors"]:
        if pid == "C05":
            viols.append(Violation("C05", "C05_RunCompletes", f"unwrapped run raised (run={e['name']})", e))
    vac = []
    if rs["stats"].get("user_condition_true_mid_run", 0) == 0:
        vac.append("runapi: no user-defined condition became true before its limit")
    return rs, viols, vac
