"""Execute RunSpecs against the real library and return schema-shaped traces."""
from __future__ import annotations

import json
import sys
import traceback

from .configs import build, cfg_summary
from .recorder import TooManyConsults


def run_spec(spec: dict) -> list[dict]:
    from pyhms.tree import DemeTree
    if spec.get("scramble"):
        # C14: the prior state of the global generators must not matter for a seeded run
        import random

        import numpy as np
        random.seed(int(spec["scramble"]))
        np.random.seed(int(spec["scramble"]))
        np.random.rand(int(spec["scramble"]) % 13 + 1)
        random.random()
    for pre in spec.get("prelude", []):      # other trees optimised earlier in this process (their traces are discarded)
        from pyhms.tree import DemeTree as _DT0
        pcfg, prec = build(pre)
        ptree = _DT0(pcfg)
        prec.tree = ptree
        ptree.run()
    warm_inner = None
    if spec.get("reuse_mechanism"):
        # the sprout mechanism object has already served another tree (a module-level mechanism shared by several runs,
        # an hms() loop): a short warm-up run with the same configuration and another seed, whose mechanism is kept
        import copy as _copy
        from pyhms.tree import DemeTree as _DT
        warm = _copy.deepcopy({k: v for k, v in spec.items() if k not in ("reuse_mechanism", "reports", "dump_at", "look", "drive")})
        warm.update(seed=int(spec.get("seed", 1)) + 7919, gsc={"kind": "MetaepochLimit", "n": 4}, max_consults=3000)
        wcfg, wrec = build(warm)
        wtree = _DT(wcfg)
        wrec.tree = wtree
        wtree.run()
        warm_inner = wcfg.sprout_mechanism.inner
    cfg, rec = build(spec)
    if warm_inner is not None:
        cfg.sprout_mechanism.inner = warm_inner
    rec.look = spec.get("look")
    if rec.look is not None:
        return run_look(spec, cfg, rec)
    status = "ok"
    info = ""
    tree = None
    try:
        if spec.get("second_tree"):
            # the very same TreeConfig object (levels, conditions, mechanism, options dict) has already served a tree that
            # ran with the hibernation option flipped; the tree under observation is the second one built from it
            cfg.options["hibernation"] = not bool(spec.get("hibernation", False))
            first = DemeTree(cfg)
            rec.tree = first
            try:
                first.run()               # (to its end: stateful conditions have seen a whole run)
            except TooManyConsults:
                pass
            cfg.options["hibernation"] = bool(spec.get("hibernation", False))
            if spec.get("zoom"):
                # a zoom-in loop: the caller shrinks the box IN PLACE (the problems keep the array by reference) before
                # the next tree is built on it
                w = rec.bounds[:, 1] - rec.bounds[:, 0]
                rec.bounds[:, 0] += 0.3 * w
                rec.bounds[:, 1] -= 0.2 * w
            rec.reset_for_new_tree()
        via_hms = (spec.get("drive") or ["run"])[0] == "hms"
        if via_hms:
            # the documented front end builds the configuration and the tree and runs it
            from pyhms import hms as _hms
            rec.pending_start = cfg_summary(spec)
            tree = _hms(cfg.levels, cfg.gsc, cfg.sprout_mechanism, options=cfg.options)
        else:
            tree = DemeTree(cfg)
        rec.tree = tree
        if spec.get("rival_tree"):
            # another tree of the process registers OTHER deme classes for the same user configuration classes; it is
            # constructed after ours and never run
            from pyhms.config import TreeConfig as _TC
            from .configs import CustomDemeB, CustomLevelConfig, DocStyleConfig, DocStyleDemeB
            rcfg, rrec = build(dict(spec, name="rival", seed=int(spec.get("seed", 1)) + 31))
            rival = DemeTree(_TC(rcfg.levels, rcfg.gsc, rcfg.sprout_mechanism, options=rcfg.options,
                                 config_class_to_deme_class={CustomLevelConfig: CustomDemeB, DocStyleConfig: DocStyleDemeB}))
            rrec.tree = rival
        if not via_hms:
            rec.emit({"e": "start", "cfg": cfg_summary(spec), "snap": rec.snap(tree, full=True)})
        drive = spec.get("drive") or ["run"]
        if drive[0] == "interleaved":
            # a second tree (short-lived children, another seed) shares the sprout mechanism object with ours and is
            # stepped alternately with it
            other_spec = {k: v for k, v in spec.items() if k not in ("reports", "dump_at", "look", "drive", "reuse_mechanism")}
            other_spec = json.loads(json.dumps(other_spec))
            other_spec.update(seed=int(spec.get("seed", 1)) + 4243, gsc={"kind": "MetaepochLimit", "n": 10 ** 6}, max_consults=10 ** 6, name="other")
            for lv in other_spec["levels"][1:]:
                if lv["engine"] != "LOCAL":
                    lv["lsc"] = {"kind": "MetaepochLimit", "n": 1}
            ocfg, orec = build(other_spec)
            ocfg.sprout_mechanism.inner = cfg.sprout_mechanism.inner
            other = DemeTree(ocfg)
            orec.tree = other

            def run(t, o):          # (named like DemeTree.run: its consults are loop-head consults)
                while not t._gsc(t):
                    o.run_step()
                    t.run_step()
            run(tree, other)
        elif drive[0] == "hms":
            pass
        elif drive[0] == "run":
            tree.run()
        elif drive[0] == "steps":            # the caller steps the tree itself and never asks the global condition
            for _ in range(int(drive[1])):
                tree.run_step()
        elif drive[0] == "run+steps":        # the caller goes on stepping after run() has returned
            tree.run()
            for _ in range(int(drive[1])):
                tree.run_step()
        elif drive[0] == "phases":           # the two halves of a step called one after the other, as test/test_gsc.py does: the
            for _ in range(int(drive[1])):   # metaepoch counter never moves and the tree itself never consults the global condition
                if len(drive) > 2 and drive[2] == "direct":
                    # ... or the caller serves the demes itself through their own public entry point
                    hib = bool(tree.config.options.get("hibernation", False))
                    for _lv, deme in reversed(tree.active_demes):
                        if not (hib and deme._hibernating):
                            deme.run_metaepoch(tree)
                else:
                    tree.run_metaepoch()
                tree.run_sprout()
        elif drive[0] == "rerun":            # run() returned; the caller raises the limit of the global condition and calls run() again
            tree.run()
            same = None
            if spec.get("dump_same_path"):
                # a checkpoint file that is overwritten: the finished tree is saved, the caller raises the limit, saves the
                # tree again to the same file and resumes - the file must hold the tree as it was at the second save
                import os as _os
                import tempfile as _tf
                fd, same = _tf.mkstemp(suffix=".pkl", dir=_os.environ.get("VERIF_SCRATCH") or None)
                _os.close(fd)
                rec.do_dump(tree, path=same)
            inner = getattr(tree._gsc, "inner", tree._gsc)
            inner.limit = inner.limit + int(drive[1])
            rec.emit({"e": "retarget", "n": int(inner.limit), "snap": rec.snap(tree, full=True)})
            if same is not None:
                try:
                    rec.do_dump(tree, path=same)
                finally:
                    if _os.path.exists(same):
                        _os.unlink(same)
            tree.run()
        else:
            raise ValueError(drive)
        rec.emit({"e": "end", "snap": rec.snap(tree, full=True)})
    except TooManyConsults as ex:
        status, info = "stalled", str(ex)
        if tree is not None:
            rec.emit({"e": "abort", "why": "stalled", "snap": rec.snap(tree, full=True)})
    except Exception as ex:  # noqa: BLE001
        status, info = "crash", "".join(traceback.format_exception(type(ex), ex, ex.__traceback__))[-1500:]
        rec.events.append({"e": "crash", "b": [], "why": repr(ex)[:200]})
    evs = rec.finish()
    for i, e in enumerate(evs):
        e["i"] = i + 1
    out = {"name": spec.get("name", ""), "status": status, "info": info, "events": evs, "spec": spec}
    loaded = []
    for k, lr in enumerate(rec.loaded_runs):
        for i, e in enumerate(lr["events"]):
            e["i"] = i + 1
        loaded.append({"name": spec.get("name", "") + (f"_copied{k}" if lr.get("kind") == "copied" else f"_loaded{k}"), "status": lr["status"], "info": "", "events": lr["events"],
                       "spec": spec, "dump_event": lr["dump_event"]})
    out["loaded"] = loaded
    return out


def run_look(spec: dict, cfg, rec) -> dict:
    """C20: a run during which the tree is looked at only at the boundaries of the look schedule (and at the end)"""
    from pyhms.tree import DemeTree
    status, info = "ok", ""
    tree = None
    try:
        tree = DemeTree(cfg)
        rec.tree = tree
        tree.run()
        rec.emit_look(tree, kind="lookend")
    except TooManyConsults as ex:
        status, info = "stalled", str(ex)
        if tree is not None:
            rec.emit_look(tree, kind="lookend")
    except Exception as ex:  # noqa: BLE001
        status, info = "crash", "".join(traceback.format_exception(type(ex), ex, ex.__traceback__))[-1500:]
    evs = rec.finish()
    for i, e in enumerate(evs):
        e["i"] = i + 1
    return {"name": spec.get("name", ""), "status": status, "info": info, "events": evs, "spec": spec, "loaded": []}


if __name__ == "__main__":
    spec = json.load(open(sys.argv[1]))
    out = run_spec(spec)
    json.dump(out, sys.stdout)
