"""Shared plumbing: paths, repo fingerprint, scratch/cache dirs, TLC runner, evidence and verdicts."""
from __future__ import annotations

import hashlib
import json
import os
import re
import shutil
import subprocess
import sys
import time
from dataclasses import dataclass, field
from pathlib import Path

VERIF = Path(__file__).resolve().parent.parent
REPO = Path(os.environ.get("VERIF_REPO", "/repo"))
SPEC = VERIF / "spec"
WORK = VERIF / "work"
EVIDENCE = VERIF / "evidence"
PY = "/venv/bin/python"
TLA_CP = "/opt/veriftools/tla/tla2tools.jar:/opt/veriftools/tla/CommunityModules-deps.jar"
NCPU = max(2, min(16, int(os.environ.get("VERIF_NCPU", "0") or 0) or (os.cpu_count() or 4)))


def seed() -> int:
    try:
        return int(os.environ.get("VERIF_SEED", "20260926"))
    except ValueError:
        return 20260926


def repo_fingerprint() -> str:
    """sha256 over every source file of the package under test (current working tree)."""
    h = hashlib.sha256()
    root = REPO / "pyhms"
    for p in sorted(root.rglob("*.py")):
        h.update(str(p.relative_to(REPO)).encode())
        h.update(b"\0")
        h.update(p.read_bytes())
        h.update(b"\0")
    return h.hexdigest()


def verif_fingerprint() -> str:
    h = hashlib.sha256()
    for sub in ("harness", "spec"):
        for p in sorted((VERIF / sub).rglob("*")):
            if p.is_file() and p.suffix in (".py", ".tla", ".cfg", ".json"):
                h.update(str(p.relative_to(VERIF)).encode())
                h.update(p.read_bytes())
    return h.hexdigest()


_KEY = None


def cache_dir(tier: str) -> Path:
    """Scratch + cache directory for this (repo tree, harness, seed, tier); older keys are pruned."""
    global _KEY
    if _KEY is None:
        _KEY = hashlib.sha256(
            (repo_fingerprint() + verif_fingerprint() + str(seed())).encode()
        ).hexdigest()[:20]
    d = WORK / f"{tier}-{_KEY}"
    if not d.exists():
        WORK.mkdir(exist_ok=True)
        # prune other keys of the same tier (keep disk bounded)
        for old in WORK.glob(f"{tier}-*"):
            if old != d and not os.environ.get("VERIF_KEEP_WORK"):
                shutil.rmtree(old, ignore_errors=True)
        d.mkdir(parents=True, exist_ok=True)
    return d


class MachineryError(RuntimeError):
    pass


@dataclass
class TlcResult:
    ok: bool
    out: str
    generated: int = 0
    distinct: int = 0
    depth: int = 0
    wall_s: float = 0.0
    violated: list = field(default_factory=list)   # names of violated invariants / properties
    coverage: dict = field(default_factory=dict)   # action name -> (distinct, total)
    errors: list = field(default_factory=list)
    trace: str = ""


_RE_STATES = re.compile(r"(\d+) states generated, (\d+) distinct states found")
_RE_DEPTH = re.compile(r"The depth of the complete state graph search is (\d+)")
_RE_INV = re.compile(r"Invariant (\S+) is violated")
_RE_PROP = re.compile(r"(?:Action property|Temporal properties?) (\S+)? ?(?:is|were) violated")
_RE_COV = re.compile(r"^<(\w+) line (\d+), col \d+ to line \d+, col \d+ of module (\w+)>: (\d+):(\d+)", re.M)


def run_tlc(module: str, cfg: str, workdir: Path, *, workers: int | str = NCPU, env: dict | None = None,
            timeout: int = 1800, coverage: bool = False, simulate: str | None = None, depth: int | None = None,
            deadlock: bool = True, java_opts: list[str] | None = None, extra: list[str] | None = None,
            tlc_seed: int | None = None, heap: str = "6g") -> TlcResult:
    """Run TLC on SPEC/<module>.tla with SPEC/<cfg>; metadir under workdir (removed afterwards)."""
    workdir.mkdir(parents=True, exist_ok=True)
    meta = workdir / f"meta-{module}-{os.getpid()}-{int(time.time()*1000)%100000}"
    cmd = ["java", "-XX:+UseParallelGC", f"-Xmx{heap}"] + (java_opts or []) + ["-cp", TLA_CP, "tlc2.TLC",
           "-workers", str(workers), "-metadir", str(meta), "-noGenerateSpecTE", "-config", str(SPEC / cfg)]
    if coverage:
        cmd += ["-coverage", "1"]
    if not deadlock:
        cmd += ["-deadlock"]
    if simulate:
        cmd += ["-simulate", simulate]
    if depth:
        cmd += ["-depth", str(depth)]
    if tlc_seed is not None:
        cmd += ["-seed", str(tlc_seed)]
    cmd += (extra or []) + [str(SPEC / (module + ".tla"))]
    e = dict(os.environ)
    e.update(env or {})
    t0 = time.time()
    try:
        p = subprocess.run(cmd, cwd=str(SPEC), env=e, capture_output=True, text=True, timeout=timeout)
        out = p.stdout + p.stderr
        rc = p.returncode
    except subprocess.TimeoutExpired as ex:
        out = (ex.stdout or b"").decode() if isinstance(ex.stdout, bytes) else (ex.stdout or "")
        out += "\nTLC TIMEOUT"
        rc = -9
    finally:
        shutil.rmtree(meta, ignore_errors=True)
    r = TlcResult(ok=(rc == 0), out=out, wall_s=time.time() - t0)
    m = None
    for m in _RE_STATES.finditer(out):
        pass
    if m:
        r.generated, r.distinct = int(m.group(1)), int(m.group(2))
    m = _RE_DEPTH.search(out)
    if m:
        r.depth = int(m.group(1))
    r.violated = _RE_INV.findall(out) + [x or "property" for x in _RE_PROP.findall(out)]
    for name, line, mod, dist, tot in _RE_COV.findall(out):
        key = name
        a, b = r.coverage.get(key, (0, 0))
        r.coverage[key] = (a + int(dist), b + int(tot))
    for line in out.splitlines():
        if line.startswith("Error:") or "Exception" in line or "***Parse Error***" in line:
            r.errors.append(line.strip())
    return r


def tlc_must_pass(r: TlcResult, what: str) -> None:
    if not r.ok and not r.violated:
        raise MachineryError(f"TLC failed on {what}:\n" + "\n".join(r.out.splitlines()[-40:]))


def printed_values(out: str, tag: str) -> list[str]:
    """Lines printed by PrintT(<<tag, json-string>>) -> list of the json strings."""
    res = []
    pat = re.compile(r'^<<"' + re.escape(tag) + r'", "(.*)">>$')
    for line in out.splitlines():
        m = pat.match(line.strip())
        if m:
            res.append(m.group(1).encode().decode("unicode_escape") if "\\" in m.group(1) else m.group(1))
    return res


# ---------------------------------------------------------------- verdicts / evidence

@dataclass
class Violation:
    prop: str
    clause: str
    signature: str          # stable description of the specific failing input / call site / history
    detail: dict = field(default_factory=dict)


def load_known() -> dict:
    p = VERIF / "known_findings.json"
    if not p.exists():
        return {"findings": [], "fixed": []}
    return json.loads(p.read_text())


def match_known(v: Violation, known: dict):
    for k in known.get("findings", []):
        if k["property"] != v.prop:
            continue
        if k.get("clause") and k["clause"] != v.clause:
            continue
        if re.search(k["signature_regex"], v.signature):
            return k
    return None


def write_evidence(prop: str, tier: str, level: str, coverage: dict, assumptions: list[str], wall_s: float,
                   violations: int) -> None:
    EVIDENCE.mkdir(exist_ok=True)
    doc = {"property_id": prop, "tier": tier, "seed": seed(), "level": level, "coverage": coverage,
           "assumptions": assumptions, "wall_s": round(wall_s, 2), "violations": violations}
    (EVIDENCE / f"{prop}.json").write_text(json.dumps(doc, indent=1, default=str) + "\n")


def run_py(args: list[str], *, timeout: int = 3600, env: dict | None = None, cwd: Path | None = None):
    e = dict(os.environ)
    e.setdefault("PYTHONHASHSEED", "0")
    e["PYTHONPATH"] = f"{REPO}:{VERIF}"
    e.update(env or {})
    return subprocess.run([PY] + args, cwd=str(cwd or VERIF), env=e, capture_output=True, text=True, timeout=timeout)
