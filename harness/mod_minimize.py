"""Stage: black-box runs of pyhms.minimize() validated by MinimizeAPI.tla."""
from __future__ import annotations

import json
from pathlib import Path

from .common import MachineryError, run_py, seed
from .stages import stage


def minimize_stage(tier: str) -> dict:
    def build(d: Path) -> dict:
        p = run_py(["-m", "harness.minimize_build", str(d), str(seed()), tier], timeout=7200,
                   env={"OMP_NUM_THREADS": "1", "OPENBLAS_NUM_THREADS": "1"})
        if p.returncode != 0:
            raise MachineryError("minimize stage failed:\n" + p.stdout[-2000:] + p.stderr[-3000:])
        out = json.loads((d / "summary.json").read_text())
        out.pop("detail", None)
        return out
    return stage("minimize", tier, build)


def minimize_violations(pid: str, tier: str):
    from .common import Violation
    ms = minimize_stage(tier)
    viols = []
    for g in ms["groups"]:
        for clause, run, x in g["viol"]:
            if clause.startswith(pid + "_"):
                viols.append(Violation(pid, clause, f"{clause} minimize group={g['name']} run#{run} detail={x}", {"group": g["name"]}))
    for e in ms["errors"]:
        if pid == "C05":
            viols.append(Violation("C05", "C05_RunCompletes", f"minimize raised (group={e['name']})", e))
    return ms, viols
