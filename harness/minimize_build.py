"""Subprocess entry: drive pyhms.minimize() as a black box (groups of runs of one objective/box/seed with several
budgets), record every call of fun and the result, let MinimizeAPI.tla decide."""
from __future__ import annotations

import json
import math
import multiprocessing as mp
import re
import sys
import warnings
from pathlib import Path

import numpy as np

from . import objectives
from .common import MachineryError, run_tlc
from .configs import BOXES

_LINE = re.compile(r'^<<"GROUP", "(.*)">>$')


def group_specs(seed: int, tier: str) -> list[dict]:
    import random
    r = random.Random(seed * 3 + 1)
    groups = []
    n = 10 if tier == "quick" else 60
    for i in range(n):
        dim = r.choice([2, 2, 3])
        pop0 = 10 + 2 * dim
        budgets = sorted(set([1, r.choice([3, 5, 9]), pop0 - 1, pop0, pop0 + 1, 2 * pop0, 2 * pop0 + r.choice([3, 9]),
                              r.choice([60, 90, 130]), r.choice([180, 260])]))
        if tier == "quick":
            budgets = budgets[:7] + budgets[-1:]
        runs = [{"maxfun": b, "maxiter": None} for b in budgets]
        runs.append({"maxfun": budgets[3], "maxiter": None})            # exact repeat (C14)
        runs.append({"maxfun": None, "maxiter": r.choice([1, 2, 3])})   # metaepoch-limited run (C05: nit)
        runs.append({"maxfun": budgets[-2], "maxiter": 2})              # both given: maxfun rules
        groups.append({"name": f"min{i}", "fn": r.choice(["sphere", "multi", "funnels", "plateau", "zero"]),
                       "box": r.choice(["sym", "asym", "decimal", "unit", "huge"]), "dim": dim,
                       "seed": r.randrange(1, 10 ** 6), "runs": runs, "bounds_as_list": i % 2 == 0})
    return groups


def run_group(g: dict) -> dict:
    warnings.filterwarnings("ignore")
    from pyhms import minimize
    bounds = np.array(BOXES[g["box"]](g["dim"]), dtype=np.float64)
    gids, good = {}, set()
    out_runs = []
    for run in g["runs"]:
        calls = []

        def fun(x, calls=calls):
            v = objectives.truth(g["fn"], x, bounds, False)
            xx = np.asarray(x, dtype=np.float64)
            k = (xx + 0.0).tobytes()
            gi = gids.setdefault(k, len(gids) + 1)
            inbox = int(xx.shape == (g["dim"],) and bool(np.all(xx >= bounds[:, 0])) and bool(np.all(xx <= bounds[:, 1])))
            good.add(v)
            calls.append([gi, v, inbox])
            return v
        b = [tuple(row) for row in bounds.tolist()] if g["bounds_as_list"] else bounds
        try:
            res = minimize(fun, b, maxfun=run["maxfun"], maxiter=run["maxiter"], seed=g["seed"])
        except Exception as ex:  # noqa: BLE001
            return {"name": g["name"], "error": repr(ex)[:300], "runs": []}
        x = np.asarray(res.x, dtype=np.float64)
        fx = float(res.fun)
        good.add(fx)
        xin = int(bool(np.all(x >= bounds[:, 0])) and bool(np.all(x <= bounds[:, 1])))
        xtru = int(objectives.truth(g["fn"], x, bounds, False) == fx) if math.isfinite(fx) else 0
        out_runs.append({"maxfun": -1 if run["maxfun"] is None else run["maxfun"],
                         "maxiter": -1 if run["maxiter"] is None else run["maxiter"], "calls": calls,
                         "ret": {"xg": gids.get((x + 0.0).tobytes(), 0), "xin": xin, "xtru": xtru, "fraw": fx,
                                 "nfev": int(res.nfev), "nit": int(res.nit)}})
    rank = {v: i for i, v in enumerate(sorted(good))}
    for r_ in out_runs:
        r_["calls"] = [[c[0], rank[c[1]], c[2]] for c in r_["calls"]]
        r_["ret"]["frank"] = rank[r_["ret"].pop("fraw")]
    return {"name": g["name"], "runs": out_runs, "spec": {k: v for k, v in g.items() if k != "runs"}}


def main(d: str, seed: str, tier: str) -> None:
    d = Path(d).resolve()
    specs = group_specs(int(seed), tier)
    with mp.get_context("fork").Pool(14) as pool:
        groups = pool.map(run_group, specs, chunksize=1)
    errs = [g for g in groups if g.get("error")]
    path = d / "groups.json"
    ok = [g for g in groups if not g.get("error")]
    path.write_text(json.dumps([{"name": g["name"], "runs": g["runs"]} for g in ok]))
    r = run_tlc("MinimizeAPI", "MinimizeAPI.cfg", d, env={"VERIF_GROUPS": str(path)}, heap="6g")
    res = []
    for line in r.out.splitlines():
        m = _LINE.match(line.strip())
        if m:
            res.append(json.loads(m.group(1).replace('\\"', '"').replace("\\\\", "\\")))
    if not r.ok or len(res) != len(ok):
        raise MachineryError("MinimizeAPI validation failed:\n" + "\n".join(r.out.splitlines()[-25:]))
    path.unlink()
    res.sort(key=lambda x: x["gid"])
    out = {"groups": res, "states": r.distinct, "errors": [{"name": g["name"], "error": g["error"]} for g in errs],
           "stats": {"groups": len(ok), "runs": sum(len(g["runs"]) for g in ok), "calls": sum(len(x["calls"]) for g in ok for x in g["runs"]),
                     "budgets": sorted({x["maxfun"] for g in ok for x in g["runs"]})},
           "detail": {g["name"]: {"spec": g["spec"], "runs": [{"maxfun": x["maxfun"], "maxiter": x["maxiter"], "ncalls": len(x["calls"]), "ret": x["ret"]} for x in g["runs"]]} for g in ok},
           "sample": {"group": ok[0]["spec"], "runs": [{"maxfun": x["maxfun"], "maxiter": x["maxiter"], "ncalls": len(x["calls"]),
                                                        "first_calls": x["calls"][:3], "ret": x["ret"]} for x in ok[0]["runs"][:4]]} if ok else {}}
    (d / "summary.json").write_text(json.dumps(out))


if __name__ == "__main__":
    main(*sys.argv[1:4])
