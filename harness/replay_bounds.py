"""C17 (and the repair step of C01): replay the Bounds.tla case table on pyhms' apply_bounds.

Every lattice case (method, lo, hi, x=<<k,d>>, expected=<<rk,rd>>) is concretised with several affine maps
value = off + k*scale (d realised with nextafter) and pushed through the real function.  Oracle: the TLC
table.  Comparison: exact for "inside the closed box", a few ulps for the rest (stated in DESIGN 2.3).
"""
from __future__ import annotations

import json
import math
import sys
from fractions import Fraction

import numpy as np

from pyhms.demes.single_pop_eas.common import apply_bounds

CONCRETISATIONS = [  # (name, scale, offset)
    ("unit", 1.0, 0.0),
    ("eighth", 0.125, 0.0),
    ("decimal", 0.1, 0.0),          # lo=-1, hi=2 is the box (-0.1, 0.2) of the property
    ("tiny", 1e-9, 0.0),
    ("huge", 1e9, 0.0),
    ("converged", 2.0 ** -20, 1.0),
    ("shifted", 1.0, 1e6),
    ("decimal_shifted", 0.1, 1000.0),
    ("third", 1.0 / 3.0, 0.0),
    ("sub-eps", 2.0 ** -60, 0.0),      # a box narrower than machine epsilon in absolute terms (lower < upper all the same)
    ("1e-300", 1e-300, 0.0),
    # "very large ranges": boxes whose range is a finite double but twice the range is not (2^1023 <= range < 2^1024); only
    # the lattice points that are finite doubles at this scale take part (|k| <= 3, box width <= 3)
    ("near-max", 2.0 ** 1022, 0.0),
]


def conc(k: int, d: int, scale: float, off: float) -> float:
    v = off + k * scale
    if d > 0:
        v = math.nextafter(v, math.inf)
    elif d < 0:
        v = math.nextafter(v, -math.inf)
    return v


def main(table_path: str, out_path: str) -> None:
    cases = [json.loads(l) for l in open(table_path) if l.strip()]
    groups: dict = {}
    for c in cases:
        groups.setdefault((c["m"], c["lo"], c["hi"]), []).append(c)
    viol = []
    n_eval = 0
    distinct = set()
    samples = []
    for (m, lo, hi), cs in sorted(groups.items()):
        for cname, scale, off in CONCRETISATIONS:
            lo_f, hi_f = conc(lo, 0, scale, off), conc(hi, 0, scale, off)
            if not lo_f < hi_f:
                continue
            # second coordinate: an interior point of another box; it must not move
            lo2, hi2 = off - 7 * scale, off + 11 * scale
            y = off + 2 * scale
            if cname == "near-max":
                if hi - lo > 3 or max(abs(lo), abs(hi)) > 3:
                    continue
                cs = [c for c in cs if abs(c["xk"]) <= 3]
                if not cs:
                    continue
                lo2, hi2 = 0.0, 3 * scale
            xs = np.array([[conc(c["xk"], c["xd"], scale, off), y] for c in cs], dtype=np.float64)
            bounds = np.array([[lo_f, hi_f], [lo2, hi2]], dtype=np.float64)
            before = xs.copy()
            res = apply_bounds(xs, bounds, m)
            res = np.asarray(res, dtype=np.float64)
            if not np.array_equal(xs, before, equal_nan=True):
                viol.append({"clause": "C17_InputNotMutated", "signature": f"method={m} conc={cname}",
                             "detail": {}})
            Rf = Fraction(hi_f) - Fraction(lo_f)

            def laws(c, x_f, r, sig_extra=""):
                """the clauses of C17 on one repaired coordinate r of input x_f"""
                M = max(abs(x_f), abs(lo_f), abs(hi_f))
                ulp = math.ulp(M)
                nranges = abs(c["xk"] - lo) // (hi - lo) + 1
                tol = (16 + 8 * nranges) * ulp
                e_f = conc(c["rk"], c["rd"], scale, off)
                inside = lo_f <= x_f <= hi_f
                kind = ("inside" if inside else "outside", "face" if c["xk"] in (lo, hi) and c["xd"] == 0 else
                        ("ulp" if c["xd"] != 0 and c["xk"] in (lo, hi) else
                         ("multiple" if (c["xk"] - lo) % (hi - lo) == 0 else "general")))
                sig = (f"method={m} box=({lo_f!r},{hi_f!r}) x={x_f!r} lattice=(lo={lo},hi={hi},x=<<{c['xk']},{c['xd']}>>)"
                       f" conc={cname}{sig_extra}")
                # a class of the INPUT (not of the outcome): finite x, finite box, but x - lower is no finite double
                if not math.isfinite(float(x_f) - float(lo_f)):
                    sig += " input_class=x-lower-overflows"
                det = {"result": repr(float(r)), "expected": repr(e_f), "kind": kind}
                if math.isnan(float(r)):
                    viol.append({"clause": "C17_LandsInBox", "signature": sig, "detail": det})
                    return kind, e_f, det, sig
                if not (lo_f <= r <= hi_f):
                    viol.append({"clause": "C17_LandsInBox", "signature": sig, "detail": det})
                if inside and not abs(r - x_f) <= 4 * ulp:
                    viol.append({"clause": "C17_IdentityInside", "signature": sig, "detail": det})
                if m == "clip":
                    ok = (r == x_f) if inside else (r == (lo_f if x_f < lo_f else hi_f))
                elif m == "reflect":
                    ok = abs(r - e_f) <= tol
                else:
                    diff = Fraction(float(r)) - Fraction(e_f)
                    q = diff / Rf
                    nearest = round(q)
                    ok = abs(diff - nearest * Rf) <= Fraction(tol)
                if not ok:
                    viol.append({"clause": "C17_MatchesDefinition", "signature": sig, "detail": det})
                return kind, e_f, det, sig

            # the same population in other memory layouts ("for every real vector"): Fortran order, a transposed view,
            # a strided slice of a larger array, a read-only array - each must be repaired exactly like the plain one
            big = np.zeros((2 * len(xs), 3), dtype=np.float64)
            big[::2, :2] = xs
            ro = xs.copy()
            ro.setflags(write=False)
            for lname, arr in (("fortran", np.asfortranarray(xs)), ("transposed-view", np.ascontiguousarray(xs.T).T),
                               ("strided", big[::2, :2]), ("read-only", ro)):
                n_eval += len(xs)
                try:
                    alt = np.asarray(apply_bounds(arr, bounds, m), dtype=np.float64)
                except Exception as ex:  # noqa: BLE001
                    viol.append({"clause": "C17_LandsInBox", "signature": f"method={m} conc={cname} layout={lname}", "detail": {"exception": repr(ex)[:200]}})
                    continue
                if alt.shape != res.shape or not np.array_equal(alt, res, equal_nan=True):     # (a NaN is reported by laws() on the plain layout)
                    badrow = int(np.argmax(np.any(alt != res, axis=1))) if alt.shape == res.shape else -1
                    viol.append({"clause": "C17_LandsInBox" if alt.shape != res.shape or not (bounds[0, 0] <= alt[badrow, 0] <= bounds[0, 1]) else "C17_MatchesDefinition",
                                 "signature": f"method={m} box=({lo_f!r},{hi_f!r}) conc={cname} layout={lname} x={float(xs[badrow, 0])!r}",
                                 "detail": {"result": repr(alt[badrow].tolist() if badrow >= 0 else alt.shape), "plain_layout_result": repr(res[badrow].tolist() if badrow >= 0 else res.shape)}})
            for c, x_f, (r, r2) in zip(cs, xs[:, 0], res):
                n_eval += 1
                distinct.add((m, lo, hi, c["xk"], c["xd"], cname))
                kind, e_f, det, sig = laws(c, x_f, r)
                if not abs(r2 - y) <= 4 * math.ulp(max(abs(y), abs(lo2), abs(hi2))):
                    viol.append({"clause": "C17_OtherCoordinateUntouched", "signature": sig, "detail": det})
                if len(samples) < 6 and kind[1] in ("face", "ulp", "multiple") and cname in ("decimal", "unit"):
                    samples.append({"case": c, "conc": cname, "x": repr(x_f), "result": repr(float(r)),
                                    "expected": repr(e_f)})
                # the same real vector given in other legal forms: a single vector instead of a population, and - when
                # its coordinate is integer-valued - as an integer or single-precision array ("for every real vector")
                forms = [("vector", np.array([x_f], dtype=np.float64))]
                if float(x_f).is_integer() and abs(x_f) < 2.0 ** 24:
                    forms += [("int64", np.array([[int(x_f)]], dtype=np.int64)), ("int64-vector", np.array([int(x_f)], dtype=np.int64)),
                              ("float32", np.array([[x_f]], dtype=np.float32))]
                for fname, arr in forms:
                    n_eval += 1
                    try:
                        rr = np.asarray(apply_bounds(arr, bounds[:1], m), dtype=np.float64).reshape(-1)
                    except Exception as ex:  # noqa: BLE001
                        viol.append({"clause": "C17_LandsInBox", "signature": sig + f" form={fname}", "detail": {"exception": repr(ex)[:200]}})
                        continue
                    if rr.shape != (1,):
                        viol.append({"clause": "C17_LandsInBox", "signature": sig + f" form={fname}", "detail": {"shape": str(rr.shape)}})
                        continue
                    laws(c, x_f, float(rr[0]), f" form={fname}")
    # ---- the repair as the operators apply it (C01: "every point at which the objective is invoked lies inside the box").
    # GaussianMutation (sea.py:25-34) repairs parent + noise with the toroidal method and evaluates the result; the noise
    # is forced so that parent + noise is the case's input.  The operator is created with a small strength and - like
    # SEAWithAdaptiveMutation does - given a larger one afterwards.
    from unittest import mock

    from pyhms.core.population import Population
    from pyhms.core.problem import FunctionProblem
    from pyhms.demes.single_pop_eas.sea import GaussianMutation
    n_op = 0
    for (m, lo, hi), cs in sorted(groups.items()):
        if m != "toroidal":
            continue
        for cname, scale, off in CONCRETISATIONS:
            if cname not in ("unit", "decimal", "tiny", "third"):
                continue
            lo_f, hi_f = conc(lo, 0, scale, off), conc(hi, 0, scale, off)
            if not lo_f < hi_f:
                continue
            lo2, hi2 = off - 7 * scale, off + 11 * scale
            y = off + 2 * scale
            bounds = np.array([[lo_f, hi_f], [lo2, hi2]], dtype=np.float64)
            Rf = Fraction(hi_f) - Fraction(lo_f)
            seen = []
            prob = FunctionProblem(lambda x, seen=seen: (seen.append(np.array(x, dtype=np.float64)), 0.0)[1], bounds=bounds, maximize=False)
            for c in cs:
                x_f = conc(c["xk"], c["xd"], scale, off)
                parent = np.array([[lo_f, y]], dtype=np.float64)
                noise = np.array([[x_f - lo_f, 0.0]])
                x_act = float(parent[0, 0] + noise[0, 0])
                mut = GaussianMutation(1e-3 * (hi_f - lo_f), bounds, 1.0)
                mut.stds = np.full(2, 2.0 * (hi_f - lo_f))          # strength raised after construction
                pop = Population(parent.copy(), np.array([0.0]), prob)
                del seen[:]
                n_op += 1
                try:
                    with mock.patch("numpy.random.normal", return_value=noise.copy()), \
                         mock.patch("numpy.random.rand", return_value=np.zeros((1, 2))):
                        out = mut(pop)
                except Exception as ex:  # noqa: BLE001
                    viol.append({"clause": "C17_LandsInBox", "signature": f"GaussianMutation box=({lo_f!r},{hi_f!r}) x={x_act!r} conc={cname}",
                                 "detail": {"exception": repr(ex)[:200]}})
                    continue
                r = float(out.genomes[0, 0])
                sig = f"operator=GaussianMutation(toroidal) box=({lo_f!r},{hi_f!r}) parent+noise={x_act!r} lattice=(lo={lo},hi={hi},x=<<{c['xk']},{c['xd']}>>) conc={cname}"
                det = {"result": repr(r)}
                if not (lo_f <= r <= hi_f and lo2 <= float(out.genomes[0, 1]) <= hi2):
                    viol.append({"clause": "C17_LandsInBox", "signature": sig, "detail": det})
                for pt in seen:
                    if not (np.all(pt >= bounds[:, 0]) and np.all(pt <= bounds[:, 1])):
                        viol.append({"clause": "C01_OperatorEvaluatesInBox", "signature": sig, "detail": {"evaluated": repr(pt.tolist())}})
                ulp = math.ulp(max(abs(x_act), abs(lo_f), abs(hi_f)))
                nranges = abs(c["xk"] - lo) // (hi - lo) + 1
                diff = Fraction(r) - Fraction(x_act)
                if abs(diff - round(diff / Rf) * Rf) > Fraction((16 + 8 * nranges) * ulp):
                    viol.append({"clause": "C17_MatchesDefinition", "signature": sig, "detail": det})
    n_eval += n_op
    json.dump({"evaluations": n_eval, "distinct": len(distinct), "lattice_cases": len(cases), "operator_cases": n_op,
               "violations": viol, "samples": samples}, open(out_path, "w"))


if __name__ == "__main__":
    main(sys.argv[1], sys.argv[2])
