"""The run corpus: randomized real configurations over the engine matrix of the properties' quantifiers,
re-creations of the repository's own test configurations, and (scenarios.py) TLC-generated scenario scripts.
All seeded; a spec is a JSON-able dict (see configs.py)."""
from __future__ import annotations

import json
import multiprocessing as mp
import os
import random
import sys
from pathlib import Path

ROOT_ENGINES = ["SEA", "SEAX", "GA", "ADAPT", "MWEA", "DE", "DEd", "SHADE", "LHS", "SOBOL", "CUSTOM", "MEMETIC", "DOC", "MPL"]
CHILD_ENGINES = ["SEA", "SEAX", "GA", "ADAPT", "MWEA", "DE", "DEd", "SHADE", "CMA", "CMAw", "CMAs", "LOCAL",
                 "LHS", "SOBOL", "CMA", "LOCAL", "CMA", "CUSTOM", "MEMETIC", "DOC"]
BOX = ["sym", "asym", "decimal", "tiny", "huge", "unit", "thirds"]
FNS = ["sphere", "multi", "funnels", "plateau", "zero", "linear", "offset"]


def _level(r: random.Random, engine: str, depth: int, nlevels: int, lowmut: bool) -> dict:
    lv = {"engine": engine}
    if engine in ("SEA", "SEAX", "GA", "ADAPT", "CUSTOM", "MEMETIC", "MPL", "CLONE"):
        lv.update(pop=r.choice([4, 5, 6, 8]), gens=r.choice([1, 2, 2, 3]), k_elites=r.choice([1, 1, 2]))
        if lowmut:
            lv["p_mutation"] = r.choice([0.3, 0.6])
        if engine in ("SEAX", "GA"):
            lv["p_crossover"] = r.choice([0.5, 0.7, 1.0])
        if engine == "ADAPT":
            lv["mstep"] = 0.02
    elif engine == "MWEA":
        lv.update(pop=8, gens=r.choice([1, 2, 3]), k_elites=2, election_group_size=5)
        if lowmut or r.random() < 0.3:
            lv["p_mutation"] = r.choice([0.3, 0.6])
    elif engine in ("DE", "DEd"):
        lv.update(pop=r.choice([4, 5, 6, 8]), gens=r.choice([1, 2, 3]), crossover=r.choice([0.9, 0.5, 1.0]),
                  scaling=r.choice([0.8, 0.8, 0.5, 1.2, 1.5]))
    elif engine == "SHADE":
        lv.update(pop=r.choice([4, 6, 8]), gens=r.choice([1, 2, 3]), mem=r.choice([2, 4]))
    elif engine.startswith("CMA"):
        lv.update(gens=r.choice([1, 2, 3, 4]))
    elif engine == "LOCAL":
        if r.random() < 0.3:
            lv["maxiter"] = r.choice([1, 2, 5])
    elif engine in ("LHS", "DOC"):
        lv.update(pop=r.choice([4, 6]))
    elif engine == "SOBOL":
        lv.update(pop=r.choice([4, 8]))
    # local stop condition
    x = r.random()
    if engine == "LOCAL":
        lv["lsc"] = {"kind": "DontStop"}
    elif x < 0.45:
        lv["lsc"] = {"kind": "DontStop"}
    elif x < 0.7:
        lv["lsc"] = {"kind": "MetaepochLimit", "n": r.choice([1, 2, 3, 4])}
    elif x < 0.8 and depth < nlevels - 1:
        lv["lsc"] = {"kind": "AllChildrenStopped"}
    elif x < 0.92:
        lv["lsc"] = {"kind": "FitnessSteadiness", "n": r.choice([1, 2, 3]), "dev": r.choice([1e-9, 1e-2, 10.0])}
    elif x < 0.95 and depth > 0:
        lv["lsc"] = {"kind": "DontRun"}
    elif x < 0.98:
        lv["lsc"] = {"kind": "DemeTarget", "target": r.choice([0.01, 0.1, 1.0]), "n": r.choice([2, 3, 5])}
    else:
        lv["lsc"] = {"kind": "DontStop"}
    return lv


def random_spec(r: random.Random, idx: int) -> dict:
    nlevels = r.choice([1, 2, 2, 2, 3, 3, 3])
    lowmut = r.random() < 0.15
    mw_lowmut = False
    engines = [r.choice(ROOT_ENGINES)] + [r.choice(CHILD_ENGINES) for _ in range(nlevels - 1)]
    levels = [_level(r, e, d, nlevels, lowmut) for d, e in enumerate(engines)]
    dim = r.choice([2, 2, 3, 4, 5, 6])
    spec = {"name": f"rand{idx}", "seed": r.randrange(1, 10 ** 6), "dim": dim, "box": r.choice(BOX),
            "fn": r.choice(FNS), "maximize": r.random() < 0.4, "levels": levels,
            "hibernation": r.random() < 0.5,
            "idlecheck": all(float(lv.get("p_mutation", 1.0)) >= 1.0 for lv in levels)}
    if r.random() < 0.15:
        spec["retarget_problem"] = True
    if r.random() < 0.15:
        spec["bare_options"] = True
    if r.random() < 0.4:
        spec["reports"] = True
    if r.random() < 0.3:
        spec["dump_at"] = r.choice([0, 1, 1, 2, 3])
        if r.random() < 0.5:
            spec["objective_form"] = "lambda"
        elif r.random() < 0.6:
            spec["dump_subprocess"] = True       # (module-level objective: restorable in another interpreter)
        if r.random() < 0.5:
            spec["branch_copy"] = True           # in-memory checkpoint: copy.deepcopy(tree), the copy runs on
    # global stop condition (only kinds that are guaranteed to end the run, or runs allowed to be cut)
    x = r.random()
    if x < 0.45:
        spec["gsc"] = {"kind": "MetaepochLimit", "n": r.choice([2, 3, 4, 5, 6])}
    elif x < 0.7:
        spec["gsc"] = {"kind": "SingularEvalLimit", "n": r.choice([15, 40, 80, 150, 300])}
    elif x < 0.8:
        w = r.choice(["equal", "root", [1] + [r.choice([0, 1, 2]) for _ in range(nlevels - 1)]])
        spec["gsc"] = {"kind": "WeightedEvalLimit", "n": r.choice([30, 80, 200]), "w": w}
    elif x < 0.86:
        spec["gsc"] = {"kind": "RootStopped"}
        levels[0]["lsc"] = {"kind": "MetaepochLimit", "n": r.choice([2, 3, 5])}
        spec["hibernation"] = False
    elif x < 0.91:
        spec["gsc"] = {"kind": "AllStopped"}
        for lv in levels:
            if lv["engine"] != "LOCAL":
                lv["lsc"] = {"kind": "MetaepochLimit", "n": r.choice([1, 2, 3])}
        spec["hibernation"] = False
    elif x < 0.95 and nlevels > 1:
        spec["gsc"] = {"kind": "NoActiveNonroot", "n": r.choice([0, 1, 2])}
        for lv in levels[1:]:
            if lv["engine"] != "LOCAL":
                lv["lsc"] = {"kind": "MetaepochLimit", "n": r.choice([1, 2])}
        spec["hibernation"] = False
        spec["max_consults"] = 400
        spec["maystall"] = True
    else:
        spec["gsc"] = {"kind": "PrecisionReached"}
        spec["wrappers"] = [["precision", r.choice([0.05, 0.5])]]
        spec["shared_problem"] = True
        spec["max_consults"] = 300
        spec["maystall"] = True
    if spec["hibernation"] and spec["gsc"]["kind"] in ("SingularEvalLimit", "WeightedEvalLimit"):
        spec["max_consults"] = 400          # may run into the stall of KF-C18-stall: do not waste time on it
    # sprout mechanism
    y = r.random()
    limit = r.choice([1, 2, 2, 3, 4])
    if y < 0.3:
        spec["sprout"] = {"kind": "simple", "far": r.choice([0.01, 0.05, 0.15, 0.4]), "limit": limit}
    elif y < 0.55:
        spec["sprout"] = {"kind": "nbc", "gen": r.choice([1.0, 2.0, 3.0]), "trunc": r.choice([0.7, 1.0]),
                          "fil": r.choice([0.5, 2.0, 3.0]), "limit": limit}
    elif y < 0.65 and nlevels == 3:
        spec["sprout"] = {"kind": "nbc_local", "gen": r.choice([1.0, 2.0]), "trunc": 1.0, "fil": r.choice([0.5, 2.0]),
                          "limit": limit}
    else:
        dfs = []
        gen = r.choice(["best", "nbc", "nbc"])
        if r.random() < 0.6:
            if gen == "nbc" and r.random() < 0.5:
                dfs.append(["nbcfar", r.choice([0.5, 1.5, 3.0]), r.random() < 0.5])
            else:
                dfs.append(["far", r.choice([0.01, 0.05, 0.2]), r.choice([1, 2, 2, 3, 4])])
        if r.random() < 0.7:
            dfs.append(["demelimit", r.choice([1, 2, 3])])
        r.shuffle(dfs)
        tfs = []
        if r.random() < 0.85:
            tfs.append(["levellimit", limit])
        if r.random() < 0.4:
            tfs.append(["skipsame"])
        r.shuffle(tfs)
        spec["sprout"] = {"kind": "composed", "generator": gen, "gen": r.choice([1.0, 2.0]), "trunc": r.choice([0.7, 1.0]),
                          "deme_filters": dfs, "tree_filters": tfs}
        if not any(t[0] == "levellimit" for t in tfs):
            # unbounded sprouting: keep the run small
            spec["gsc"] = {"kind": "MetaepochLimit", "n": r.choice([2, 3])}
            spec.pop("wrappers", None)
            spec.pop("shared_problem", None)
            spec.pop("maystall", None)
    # user-level wrapper stacks under each deme's own counter
    if "wrappers" not in spec:
        z = r.random()
        if z < 0.1:
            spec["wrappers"] = [["count"]]
        elif z < 0.18:
            spec["wrappers"] = [["stats"], ["count"]]
        elif z < 0.3 and spec["gsc"]["kind"] in ("SingularEvalLimit", "MetaepochLimit"):
            spec["wrappers"] = [["cutoff", r.choice([10, 25, 60, 120])]]
            spec["shared_problem"] = True
    return spec


def repo_test_specs() -> list[dict]:
    """The repository's own test configurations, re-created (same engines, sizes, conditions, mechanisms)."""
    out = []
    base = {"dim": 2, "box": "sym", "fn": "sphere", "maximize": False}
    sea = {"engine": "SEA", "pop": 20, "gens": 2, "mstd": 0.1, "lsc": {"kind": "DontStop"}}
    cma = {"engine": "CMA", "gens": 4, "sigma0": 0.25, "lsc": {"kind": "DontStop"}}
    de = {"engine": "DEd", "pop": 20, "gens": 2, "lsc": {"kind": "DontStop"}}
    simple = {"kind": "simple", "far": 0.1, "limit": 4}
    nbc = {"kind": "nbc", "limit": 4}
    g10 = {"kind": "MetaepochLimit", "n": 10}
    out.append(dict(base, name="t_deme_tree", seed=1, levels=[sea, cma], gsc=g10, sprout=simple))
    out.append(dict(base, name="t_hibernation", seed=2, levels=[sea, cma], gsc=g10, sprout=simple, hibernation=True))
    out.append(dict(base, name="t_local", seed=1, levels=[sea, {"engine": "LOCAL"}], gsc=g10, sprout=simple))
    out.append(dict(base, name="t_3levels_simple", seed=3, levels=[de, sea, cma], gsc=g10, sprout=simple))
    out.append(dict(base, name="t_3levels_nbc", seed=4, levels=[de, sea, cma], gsc=g10, sprout=nbc, fn="funnels"))
    out.append(dict(base, name="t_persist", seed=1, levels=[de, cma], gsc=g10, sprout=simple, fn="funnels"))
    out.append(dict(base, name="t_repro_de_de", seed=5, levels=[de, dict(de, pop=10)], gsc=g10, sprout=simple))
    out.append(dict(base, name="t_square_adaptive", seed=6, levels=[dict(sea, engine="ADAPT", mstep=0.02), cma], gsc=g10, sprout=simple))
    out.append(dict(base, name="t_square_warm", seed=7, levels=[sea, dict(cma, engine="CMAw")], gsc=g10, sprout=simple))
    out.append(dict(base, name="t_square_stds", seed=8, levels=[sea, dict(cma, engine="CMAs")], gsc=g10, sprout=simple))
    out.append(dict(base, name="t_square_lhs", seed=9, levels=[{"engine": "LHS", "pop": 20}, cma], gsc=g10, sprout=simple))
    out.append(dict(base, name="t_evallimit", seed=10, levels=[sea, cma], gsc={"kind": "SingularEvalLimit", "n": 1000}, sprout=simple))
    out.append(dict(base, name="t_allstopped", seed=11, levels=[dict(sea, lsc={"kind": "MetaepochLimit", "n": 5}),
                                                               dict(cma, lsc={"kind": "MetaepochLimit", "n": 3})],
                    gsc={"kind": "AllStopped"}, sprout=simple))
    out.append(dict(base, name="t_max_nbc", seed=12, maximize=True, levels=[sea, cma], gsc=g10, sprout=nbc, fn="funnels"))
    return out


def sweep_specs(tier: str = "quick") -> list[dict]:
    """Shipped stop conditions with all small parameters on one small configuration (C05: every point at which an
    evaluation- or metaepoch-based condition can first become true, incl. inside a child's construction)."""
    out = []
    base = {"dim": 2, "box": "sym", "fn": "multi", "maximize": False, "seed": 77,
            "levels": [{"engine": "SEA", "pop": 6, "gens": 2}, {"engine": "DE", "pop": 5, "gens": 1, "lsc": {"kind": "MetaepochLimit", "n": 2}}],
            "sprout": {"kind": "simple", "far": 0.01, "limit": 2}}
    step = 1 if tier == "thorough" else 2
    for n in range(1, 90, step):
        out.append(dict(base, name=f"sweep_evals{n}", gsc={"kind": "SingularEvalLimit", "n": n}))
    for n in range(1, 60, 2 * step):
        out.append(dict(base, name=f"sweep_wroot{n}", gsc={"kind": "WeightedEvalLimit", "n": n, "w": "root"}, hibernation=True))
        out.append(dict(base, name=f"sweep_w12_{n}", gsc={"kind": "WeightedEvalLimit", "n": n, "w": [1, 2]}))
    for n in range(0, 6):
        out.append(dict(base, name=f"sweep_meta{n}", gsc={"kind": "MetaepochLimit", "n": n}, reports=True))
    for n in range(0, 3):
        out.append(dict(base, name=f"sweep_nonroot{n}", gsc={"kind": "NoActiveNonroot", "n": n}, max_consults=300, maystall=True))
    out.append(dict(base, name="sweep_dontrun", gsc={"kind": "DontRun"}, reports=True))
    # every deme has stopped long before the condition holds: dozens of metaepochs pass in which nothing runs
    quiet = [{"engine": "SEA", "pop": 6, "gens": 2, "lsc": {"kind": "MetaepochLimit", "n": 2}},
             {"engine": "DE", "pop": 5, "gens": 1, "lsc": {"kind": "MetaepochLimit", "n": 1}}]
    out.append(dict(base, name="sweep_idle70", levels=quiet, gsc={"kind": "MetaepochLimit", "n": 70}, max_consults=2500))
    out.append(dict(base, name="sweep_idle120", levels=quiet, gsc={"kind": "MetaepochLimit", "n": 120}, max_consults=2500, hibernation=True))
    # known finding KF-C18-converged, reproduced deterministically: a SHADE population that collapses to one point
    out.append({"name": "sweep_converged", "seed": 42, "dim": 2, "box": "unit", "fn": "sphere", "maximize": False,
                "levels": [{"engine": "SHADE", "pop": 6, "gens": 2, "mem": 2}], "gsc": {"kind": "MetaepochLimit", "n": 150},
                "sprout": {"kind": "simple", "far": 0.1, "limit": 1}, "max_consults": 5000})
    out.append(dict(base, name="sweep_idle_nonroot", levels=quiet, gsc={"kind": "NoActiveNonroot", "n": 58}, max_consults=2500))
    return out


def lifecycle_specs() -> list[dict]:
    """Local stop conditions whose verdict depends on state that changes between a deme's turns (C06)."""
    out = []
    base = {"dim": 2, "box": "sym", "fn": "multi", "maximize": False, "gsc": {"kind": "MetaepochLimit", "n": 6}}
    n = 0
    for child in ({"engine": "LOCAL"}, {"engine": "CMA", "gens": 1, "lsc": {"kind": "MetaepochLimit", "n": 1}},
                  {"engine": "DE", "pop": 5, "gens": 1, "lsc": {"kind": "MetaepochLimit", "n": 2}},
                  {"engine": "SEA", "pop": 5, "gens": 2, "lsc": {"kind": "DontRun"}}):
        for hib in (False, True):
            for limit in (1, 2):
                n += 1
                out.append(dict(base, name=f"life{n}", seed=300 + n, hibernation=hib,
                                levels=[{"engine": "SEA", "pop": 6, "gens": 1, "lsc": {"kind": "AllChildrenStopped"}}, child],
                                sprout={"kind": "simple", "far": 0.01, "limit": limit}))
    for hib in (False, True):
        n += 1
        out.append(dict(base, name=f"life{n}", seed=300 + n, hibernation=hib,
                        levels=[{"engine": "DE", "pop": 6, "gens": 1}, {"engine": "SEA", "pop": 5, "gens": 1, "lsc": {"kind": "AllChildrenStopped"}},
                                {"engine": "LOCAL", "maxiter": 2}],
                        sprout={"kind": "simple", "far": 0.01, "limit": 2}))
    # the local-method mechanism: demes of the middle level stop after 1-3 metaepochs and hand their best to a local search
    # once, in the round right after they stopped
    for mid in ({"engine": "DE", "pop": 6, "gens": 1}, {"engine": "SEA", "pop": 6, "gens": 2}, {"engine": "CMA", "gens": 2}):
        for k, (hib, maximize) in enumerate(((False, False), (True, True))):
            n += 1
            out.append(dict(base, name=f"life{n}", seed=300 + n, hibernation=hib, maximize=maximize, gsc={"kind": "MetaepochLimit", "n": 9},
                            levels=[{"engine": "SEA", "pop": 10, "gens": 1}, dict(mid, lsc={"kind": "MetaepochLimit", "n": 1 + (n % 3)}), {"engine": "LOCAL", "maxiter": 4}],
                            sprout={"kind": "nbc_local", "gen": 1.0, "trunc": 1.0, "fil": 0.5, "limit": 2}, fn="funnels"))
    # ... the same mechanism over leaves that live for several metaepochs: the leaf level is nearly full when a stopped parent
    # offers its best, so the level limit has to cut what stopped parents offer
    for k, leaf in enumerate(({"engine": "SEA", "pop": 5, "gens": 1}, {"engine": "DE", "pop": 5, "gens": 1}, {"engine": "CMA", "gens": 1})):
        for limit in (1, 2):
            n += 1
            out.append(dict(base, name=f"life{n}", seed=300 + n, hibernation=(limit == 2), maximize=(k == 1), gsc={"kind": "MetaepochLimit", "n": 12},
                            levels=[{"engine": "SEA", "pop": 12, "gens": 1}, {"engine": "DE", "pop": 6, "gens": 1, "lsc": {"kind": "MetaepochLimit", "n": 1 + k % 2}},
                                    dict(leaf, lsc={"kind": "MetaepochLimit", "n": 6})],
                            sprout={"kind": "nbc_local", "gen": 1.0, "trunc": 1.0, "fil": 0.3, "limit": limit}, fn="funnels"))
    return out


def engine_specs() -> list[dict]:
    """Every engine variant of the properties' quantifier at least once as a root and once as a sprouted deme, with
    several generations per metaepoch and (where the engine has one) a mutation probability below 1, so that
    generation chaining (C11), elitism (C12) and storage (C02/C04) are exercised deterministically."""
    out = []
    base = {"dim": 2, "box": "sym", "fn": "multi", "gsc": {"kind": "MetaepochLimit", "n": 4},
            "sprout": {"kind": "simple", "far": 0.02, "limit": 2}}
    variants = [
        {"engine": "SEA", "pop": 6, "gens": 4, "p_mutation": 0.4}, {"engine": "SEA", "pop": 6, "gens": 3, "k_elites": 2},
        {"engine": "SEAX", "pop": 6, "gens": 3, "p_mutation": 0.5, "p_crossover": 0.6}, {"engine": "GA", "pop": 6, "gens": 3, "p_mutation": 0.3},
        {"engine": "ADAPT", "pop": 6, "gens": 3, "mstep": 0.02, "p_mutation": 0.5},
        {"engine": "MWEA", "pop": 8, "gens": 4, "k_elites": 2, "election_group_size": 5, "p_mutation": 0.4},
        {"engine": "MWEA", "pop": 8, "gens": 3, "k_elites": 2, "election_group_size": 5},
        {"engine": "DE", "pop": 6, "gens": 4, "crossover": 0.5}, {"engine": "DEd", "pop": 6, "gens": 3},
        {"engine": "DE", "pop": 6, "gens": 3, "scaling": 1.5}, {"engine": "SHADE", "pop": 6, "gens": 4, "mem": 3},
        {"engine": "CUSTOM", "pop": 6, "gens": 3, "p_mutation": 0.5}, {"engine": "MEMETIC", "pop": 6, "gens": 3, "k_elites": 1},
        {"engine": "MEMETIC", "pop": 5, "gens": 2, "k_elites": 2, "p_mutation": 0.5}, {"engine": "MPL", "pop": 5, "gens": 3, "k_elites": 1}, {"engine": "CLONE", "pop": 6, "gens": 3, "k_elites": 1},
    ]
    n = 0
    for v in variants:
        for maximize in (False, True):
            n += 1
            lows = any(float(v.get("p_mutation", 1.0)) < 1.0 for _ in [0])
            out.append(dict(base, name=f"eng{n}", seed=500 + n, maximize=maximize, levels=[dict(v)], idlecheck=not lows,
                            fn=["multi", "plateau", "offset"][n % 3]))
            n += 1
            out.append(dict(base, name=f"eng{n}", seed=500 + n, maximize=maximize, idlecheck=not lows,
                            levels=[{"engine": "SEA", "pop": 8, "gens": 1}, dict(v)], fn=["funnels", "multi", "sphere"][n % 3]))
    for child in ({"engine": "CMA", "gens": 3}, {"engine": "CMAw", "gens": 3}, {"engine": "CMAs", "gens": 2}, {"engine": "LOCAL"},
                  {"engine": "LHS", "pop": 5}, {"engine": "SOBOL", "pop": 4}, {"engine": "DOC", "pop": 5}):
        for maximize in (False, True):
            n += 1
            out.append(dict(base, name=f"eng{n}", seed=500 + n, maximize=maximize,
                            levels=[{"engine": "DE", "pop": 8, "gens": 1}, dict(child)], fn=["funnels", "zero"][n % 2]))
    return out


def branch_specs() -> list[dict]:
    """In-memory checkpoints: the live tree is deep-copied at a boundary, the copy runs to its end (a tree like any other),
    then the live tree goes on."""
    out = []
    base = {"dim": 2, "box": "sym"}
    for n, (root, child) in enumerate((("SEA", "DE"), ("DE", "SHADE"), ("SHADE", "SEA"), ("SEA", "CMA"), ("LHS", "SEA"), ("DE", "LOCAL")), start=1):
        lv0 = {"engine": root, "pop": 8, "gens": 1 + n % 2}
        lv1 = {"engine": child, "gens": 2, "lsc": {"kind": "MetaepochLimit", "n": 3}}
        if child not in ("CMA", "LOCAL"):
            lv1["pop"] = 6
        if child == "LOCAL":
            lv1 = {"engine": "LOCAL", "maxiter": 3}
        for lv in (lv0, lv1):
            if lv["engine"] == "SHADE":
                lv["mem"] = 3
            if lv["engine"] == "LHS":
                lv.pop("gens", None)
        out.append(dict(base, name=f"branch{n}", seed=2000 + n, levels=[lv0, lv1], hibernation=(n % 2 == 0), maximize=(n % 3 == 0),
                        sprout={"kind": "nbc", "gen": 1.0, "trunc": 1.0, "fil": 0.5, "limit": 3} if n % 2 else {"kind": "simple", "far": 0.05, "limit": 3},
                        gsc=[{"kind": "MetaepochLimit", "n": 6}, {"kind": "SingularEvalLimit", "n": 220}][n % 2],
                        dump_at=2 + n % 2, branch_copy=True, fn=["multi", "funnels", "plateau"][n % 3]))
    return out


def init_specs() -> list[dict]:
    """Sprouted population demes whose initial sample (sample_normal around the seed, rejection of points outside
    the box) is as wide as the box, in 4-6 dimensions: almost every draw is rejected (C01 / C07 on the constructor path)."""
    out = []
    n = 0
    for child in ({"engine": "SEA", "pop": 6, "gens": 1}, {"engine": "DE", "pop": 6, "gens": 1}, {"engine": "SHADE", "pop": 6, "gens": 1, "mem": 2}):
        for dim, wide, box in ((5, 1.0, "unit"), (6, 0.8, "sym"), (4, 1.5, "decimal")):
            n += 1
            out.append({"name": f"init{n}", "seed": 800 + n, "dim": dim, "box": box, "fn": ["sphere", "multi", "linear"][n % 3],
                        "maximize": n % 4 == 0, "gsc": {"kind": "MetaepochLimit", "n": 4},
                        "levels": [{"engine": "DE", "pop": 10, "gens": 1}, dict(child, sstd_wide=wide, lsc={"kind": "MetaepochLimit", "n": 2})],
                        "sprout": {"kind": "simple", "far": 0.01, "limit": 3}})
    return out


def manual_specs() -> list[dict]:
    """The caller drives the tree with run_step() itself (never consulting the global condition at the loop head), or goes
    on stepping after run() has returned: the lifecycle, accounting, structure, limit and report clauses keep applying."""
    out = []
    n = 0
    base = {"dim": 2, "box": "sym", "fn": "multi", "maximize": False}
    rows = [
        ([{"engine": "SEA", "pop": 6, "gens": 2}, {"engine": "CMA", "gens": 2, "lsc": {"kind": "MetaepochLimit", "n": 2}}],
         {"kind": "simple", "far": 0.02, "limit": 2}),
        ([{"engine": "DE", "pop": 6, "gens": 1}, {"engine": "SEA", "pop": 5, "gens": 2, "lsc": {"kind": "MetaepochLimit", "n": 2}}, {"engine": "LOCAL", "maxiter": 2}],
         {"kind": "nbc", "gen": 1.0, "trunc": 1.0, "fil": 0.5, "limit": 2}),
        ([{"engine": "SHADE", "pop": 6, "gens": 1, "mem": 2}, {"engine": "DE", "pop": 5, "gens": 1, "lsc": {"kind": "MetaepochLimit", "n": 3}}],
         {"kind": "composed", "generator": "nbc", "gen": 1.0, "trunc": 1.0, "deme_filters": [["demelimit", 2]], "tree_filters": [["levellimit", 3]]}),
    ]
    for levels, sprout in rows:
        for gsc in ({"kind": "MetaepochLimit", "n": 3}, {"kind": "SingularEvalLimit", "n": 60}):
            for drive in (["steps", 5], ["run+steps", 2], ["rerun", 3]):
                if drive[0] == "rerun" and gsc["kind"] != "MetaepochLimit":
                    continue      # (with every deme stopped an evaluation-based condition can never fire again)
                for hib in (False, True):
                    n += 1
                    out.append(dict(base, name=f"manual{n}", seed=900 + n, levels=[dict(l) for l in levels], sprout=dict(sprout), gsc=dict(gsc),
                                    drive=drive, hibernation=hib, reports=(n % 2 == 0), fn=["multi", "funnels", "plateau"][n % 3],
                                    maximize=(n % 5 == 0), idlecheck=False))
                    if drive[0] == "rerun":
                        out[-1]["dump_same_path"] = True
    # the two halves of a step called separately (test/test_gsc.py drives trees like this): the counter stays frozen
    gscs = [{"kind": "SingularEvalLimit", "n": 150}, {"kind": "AllStopped"}, {"kind": "MetaepochLimit", "n": 3}]
    sprouts = [{"kind": "simple", "far": 0.05, "limit": 3}, {"kind": "nbc", "gen": 1.0, "trunc": 1.0, "fil": 0.5, "limit": 3},
               {"kind": "simple", "far": 0.3, "limit": 2, "norm": 1}]
    engines = ["SEA", "DE", "SHADE", "CMA"]
    for k in range(12):
        child = engines[k % 4]
        lv1 = {"engine": child, "gens": 2, "lsc": {"kind": "MetaepochLimit", "n": 2 + k % 3}}
        if child != "CMA":
            lv1["pop"] = 6
        if child == "SHADE":
            lv1["mem"] = 3
        levels = [{"engine": ["SEA", "DE", "SHADE"][k % 3], "pop": 8, "gens": 1 + k % 2}, lv1]
        if k % 4 == 3:
            levels[1] = {"engine": "SEA", "pop": 5, "gens": 1, "lsc": {"kind": "MetaepochLimit", "n": 3}}
            levels.append({"engine": "LOCAL", "maxiter": 2})
        if levels[0]["engine"] == "SHADE":
            levels[0]["mem"] = 3
        n += 1
        out.append(dict(base, name=f"manual{n}", seed=900 + n, levels=levels, sprout=dict(sprouts[k % 3]), gsc=dict(gscs[k % 3]),
                        drive=["phases", 5 + k % 3] + (["direct"] if k % 2 == 0 or k == 11 else []), hibernation=(k % 4 in (1, 2)), reports=(k % 3 == 0), fn=["multi", "funnels", "sphere"][k % 3],
                        maximize=(k % 5 == 0), idlecheck=False))
    return out


def frontend_specs() -> list[dict]:
    """The tree is built and run by the library's documented front end hms(level_config, gsc, sprout_cond, options); the
    recorder first sees it at the loop-head consult of run()."""
    out = []
    base = {"dim": 2, "box": "sym"}
    rows = [
        ([{"engine": "SEA", "pop": 8, "gens": 2}, {"engine": "CMA", "gens": 3, "lsc": {"kind": "MetaepochLimit", "n": 3}}],
         {"kind": "simple", "far": 0.05, "limit": 3}),
        ([{"engine": "DE", "pop": 8, "gens": 1}, {"engine": "SEA", "pop": 5, "gens": 2, "lsc": {"kind": "MetaepochLimit", "n": 2}}, {"engine": "LOCAL", "maxiter": 3}],
         {"kind": "nbc", "gen": 1.0, "trunc": 1.0, "fil": 0.5, "limit": 2}),
        ([{"engine": "SHADE", "pop": 8, "gens": 1, "mem": 3}, {"engine": "DE", "pop": 6, "gens": 2, "lsc": {"kind": "MetaepochLimit", "n": 3}}],
         {"kind": "nbc", "gen": 1.0, "trunc": 1.0, "fil": 0.5, "limit": 3}),
        ([{"engine": "LHS", "pop": 12}, {"engine": "SEA", "pop": 6, "gens": 2, "lsc": {"kind": "MetaepochLimit", "n": 4}}],
         {"kind": "simple", "far": 0.1, "limit": 2}),
    ]
    n = 0
    for levels, sprout in rows:
        for hib in (False, True):
            n += 1
            gsc = [{"kind": "MetaepochLimit", "n": 6}, {"kind": "SingularEvalLimit", "n": 160}, {"kind": "WeightedEvalLimit", "n": 150, "w": "equal"}][n % 3]
            out.append(dict(base, name=f"hms{n}", seed=1900 + n, levels=[dict(l) for l in levels], sprout=dict(sprout), gsc=gsc, drive=["hms"],
                            hibernation=hib, fn=["multi", "funnels", "plateau", "zero"][n % 4], maximize=(n % 3 == 0), idlecheck=not hib))
    return out


def extra_specs() -> list[dict]:
    """Round f: metaepochs of 6-9 generations; the hibernation option as a numpy bool / an int; graphical reports
    (tree_diagram, animate) rendered in the middle of a run of a three-level tree."""
    out = []
    base = {"dim": 2, "box": "sym"}
    n = 0
    for eng in ("SEA", "DE", "SHADE", "SEAX", "MWEA"):
        for gens in (6, 9):
            n += 1
            lv0 = {"engine": eng, "pop": 8, "gens": gens}
            lv1 = {"engine": ["DE", "SEA", "SHADE"][n % 3], "pop": 6, "gens": 7, "lsc": {"kind": "MetaepochLimit", "n": 2}}
            for lv in (lv0, lv1):
                if lv["engine"] == "SHADE":
                    lv["mem"] = 3
                if lv["engine"] == "SEAX":
                    lv["p_crossover"] = 0.6
                if lv["engine"] == "MWEA":
                    lv.update(k_elites=2, election_group_size=5)
            out.append(dict(base, name=f"xtra{n}", seed=2100 + n, levels=[lv0, lv1], maximize=(n % 2 == 0), fn=["multi", "funnels", "plateau"][n % 3],
                            sprout={"kind": "simple", "far": 0.05, "limit": 2}, gsc={"kind": "MetaepochLimit", "n": 4}))
    for k, form in enumerate(("numpy", "int", "numpy", "int")):
        n += 1
        hib = k < 3
        levels = [{"engine": "SEA", "pop": 8, "gens": 1}, {"engine": "DE", "pop": 6, "gens": 2, "lsc": {"kind": "MetaepochLimit", "n": 3}}]
        if k % 2:
            levels.append({"engine": "LOCAL", "maxiter": 2})
        out.append(dict(base, name=f"xtra{n}", seed=2100 + n, levels=levels, hibernation=hib, hib_form=form, fn="funnels",
                        sprout={"kind": "nbc", "gen": 1.0, "trunc": 1.0, "fil": 0.5, "limit": 2}, gsc={"kind": "MetaepochLimit", "n": 7},
                        drive=(["hms"] if k == 2 else ["run"])))
    # the objective answers with numpy scalars / 0-d arrays (what np.where, np.squeeze, np.asarray return)
    for k, (root, child) in enumerate((("SEA", "CMA"), ("DE", "SEA"), ("SHADE", "LOCAL"), ("SEA", "DE"), ("LHS", "CMA"), ("SEAX", "SHADE"))):
        n += 1
        lv0 = {"engine": root, "pop": 8, "gens": 2}
        lv1 = {"engine": child, "pop": 6, "gens": 2, "lsc": {"kind": "MetaepochLimit", "n": 3}}
        if child == "LOCAL":
            lv1 = {"engine": "LOCAL", "maxiter": 3}
        if child == "CMA":
            lv1.pop("pop")
        for lv in (lv0, lv1):
            if lv["engine"] == "SHADE":
                lv["mem"] = 3
            if lv["engine"] == "SEAX":
                lv["p_crossover"] = 0.6
            if lv["engine"] == "LHS":
                lv.pop("gens", None)
        out.append(dict(base, name=f"xtra{n}", seed=2100 + n, levels=[lv0, lv1], maximize=(k % 2 == 0), fn=("plateau" if k == 4 else ["multi", "funnels"][k % 2]),
                        ret_form=["arr0", "np64", "arr0", "f32", "i64", "f32"][k], reports=(k % 2 == 1 or k >= 3), dump_at=(2 if k % 3 == 0 else None),
                        sprout={"kind": "simple", "far": 0.05, "limit": 2}, gsc={"kind": "MetaepochLimit", "n": 5}))
        if out[-1]["dump_at"] is None:
            out[-1].pop("dump_at")
    # two configurations that exposed defects in the thorough tier (fixed in /repo 02835d2, baffef4) - pinned in every tier:
    # a local search in a box of width 1e-9 with the optimum on a face (scipy's finite differences overshoot the bound by an ulp)
    for k in range(3):
        n += 1
        out.append(dict(name=f"xtra{n}", seed=[919694, 2101, 2102][k], dim=4, box="tiny", fn="linear", maximize=(k != 1),
                        levels=[{"engine": ["MPL", "SEA", "DE"][k], "pop": 8, "gens": 1, "k_elites": 1, "lsc": {"kind": "DemeTarget", "target": 0.01, "n": 3}},
                                {"engine": "LOCAL", "maxiter": 2, "lsc": {"kind": "DontStop"}}],
                        hibernation=False, gsc={"kind": "MetaepochLimit", "n": 4},
                        sprout={"kind": "composed", "generator": "best", "gen": 2.0, "trunc": 1.0, "deme_filters": [["demelimit", 1]], "tree_filters": [["levellimit", 4]]}))
    # ... and a CMA-ES deme that takes its initial standard deviations (set_stds) from a parent population that is
    # degenerate in a coordinate: the iterates of a local search on a plateau
    n += 1
    out.append(dict(name=f"xtra{n}", seed=174223, dim=4, box="sym", fn="plateau", maximize=False, hibernation=True, reports=True,
                    levels=[{"engine": "SEA", "pop": 4, "gens": 3, "k_elites": 2, "lsc": {"kind": "MetaepochLimit", "n": 2}},
                            {"engine": "LOCAL", "lsc": {"kind": "DontStop"}},
                            {"engine": "CMAs", "gens": 1, "lsc": {"kind": "FitnessSteadiness", "n": 1, "dev": 1e-09}}],
                    gsc={"kind": "SingularEvalLimit", "n": 300}, max_consults=400,
                    sprout={"kind": "nbc_local", "gen": 1.0, "trunc": 1.0, "fil": 2.0, "limit": 1}))
    # hibernation switched off on the live tree at a boundary (the options dictionary is public and read live)
    for k, (sprout, third) in enumerate((({"kind": "nbc", "gen": 1.0, "trunc": 1.0, "fil": 0.5, "limit": 1}, None),
                                         ({"kind": "simple", "far": 0.05, "limit": 1}, None),
                                         ({"kind": "nbc", "gen": 1.0, "trunc": 1.0, "fil": 3.0, "limit": 1}, {"engine": "LOCAL", "maxiter": 2}),
                                         ({"kind": "nbc_local", "gen": 1.0, "trunc": 1.0, "fil": 0.5, "limit": 2}, {"engine": "LOCAL", "maxiter": 2}))):
        n += 1
        levels = [{"engine": ["SEA", "DE"][k % 2], "pop": 10, "gens": 1}, {"engine": "SEA", "pop": 5, "gens": 1, "lsc": {"kind": "MetaepochLimit", "n": 2 + k % 2}}]
        if third:
            levels.append(dict(third))
        out.append(dict(base, name=f"xtra{n}", seed=2100 + n, levels=levels, hibernation=True, hib_off_at=4 + k, fn="funnels", maximize=(k == 1),
                        sprout=dict(sprout), gsc={"kind": "MetaepochLimit", "n": 12}, idlecheck=False))
    for k in range(3):
        n += 1
        levels = [{"engine": "SEA", "pop": 10, "gens": 2}, {"engine": "DE", "pop": 6, "gens": 2, "lsc": {"kind": "MetaepochLimit", "n": 6}},
                  {"engine": ["CMA", "SEA", "LOCAL"][k], "pop": 5, "gens": 2, "lsc": {"kind": "MetaepochLimit", "n": 2}}]
        if levels[2]["engine"] == "LOCAL":
            levels[2] = {"engine": "LOCAL", "maxiter": 2}
        if levels[2]["engine"] == "CMA":
            levels[2].pop("pop")
        out.append(dict(base, name=f"xtra{n}", seed=2100 + n, levels=levels, hibernation=(k == 1), fn="funnels", reports=True, visuals=True,
                        sprout={"kind": "simple", "far": 0.02, "limit": 3}, gsc={"kind": "MetaepochLimit", "n": 6}, cpu_cap_s=300))
    return out


def hibev_specs() -> list[dict]:
    """Hibernation on + an evaluation-based global condition, the limit swept so that the total crosses it at many different
    points of the sleep / wake cycle (while a deme sleeps, right after it was woken, while a woken deme goes quiet again)."""
    out = []
    base = {"dim": 2, "box": "sym", "hibernation": True}
    rows = [
        ([{"engine": "SEA", "pop": 8, "gens": 1}, {"engine": "DE", "pop": 5, "gens": 1, "lsc": {"kind": "MetaepochLimit", "n": 2}}],
         {"kind": "simple", "far": 0.05, "limit": 1}, "multi"),
        ([{"engine": "DE", "pop": 8, "gens": 1}, {"engine": "SEA", "pop": 5, "gens": 2, "lsc": {"kind": "MetaepochLimit", "n": 3}}, {"engine": "LOCAL", "maxiter": 2}],
         {"kind": "nbc", "gen": 1.0, "trunc": 1.0, "fil": 0.5, "limit": 2}, "funnels"),
        ([{"engine": "SEA", "pop": 6, "gens": 2}, {"engine": "CMA", "gens": 2, "lsc": {"kind": "MetaepochLimit", "n": 2}}],
         {"kind": "simple", "far": 0.1, "limit": 2}, "funnels"),
    ]
    n = 0
    for levels, sprout, fn in rows:
        for lim in range(70, 331, 20):
            n += 1
            kind = "SingularEvalLimit" if n % 3 else "WeightedEvalLimit"
            gsc = {"kind": kind, "n": lim}
            if kind == "WeightedEvalLimit":
                gsc["w"] = "equal"
            out.append(dict(base, name=f"hibev{n}", seed=2300 + n % 5, levels=[dict(l) for l in levels], sprout=dict(sprout), gsc=gsc,
                            fn=fn, maximize=(n % 4 == 0), idlecheck=False, max_consults=1500))
    return out


def penalty_specs() -> list[dict]:
    """An objective that answers the worst infinity on part of the box ("death penalty"): these are real evaluations -
    counted, charged to budgets, stored with their true fitness - although they look like a budget wrapper's refusals."""
    out = []
    n = 0
    base = {"dim": 2, "box": "sym", "fn": "penalty"}
    for root, child in (({"engine": "SEA", "pop": 8, "gens": 2}, {"engine": "DE", "pop": 5, "gens": 1}),
                        ({"engine": "DE", "pop": 8, "gens": 1}, {"engine": "SEA", "pop": 5, "gens": 2}),
                        ({"engine": "SHADE", "pop": 8, "gens": 1, "mem": 2}, {"engine": "SEAX", "pop": 6, "gens": 1, "p_crossover": 0.7}),
                        ({"engine": "LHS", "pop": 10}, {"engine": "SHADE", "pop": 6, "gens": 1, "mem": 2})):
        for maximize in (False, True):
            for wr, gsc in (([], {"kind": "SingularEvalLimit", "n": 70}), ([["cutoff", 45]], {"kind": "MetaepochLimit", "n": 5}),
                            ([["count"]], {"kind": "WeightedEvalLimit", "n": 50, "w": "equal"})):
                n += 1
                sp = dict(base, name=f"pen{n}", seed=950 + n, maximize=maximize, gsc=gsc,
                          levels=[dict(root), dict(child, lsc={"kind": "MetaepochLimit", "n": 3})],
                          sprout={"kind": "simple", "far": 0.02, "limit": 2}, idlecheck=False)
                if wr:
                    sp["wrappers"] = wr
                    if wr[0][0] == "cutoff":
                        sp["shared_problem"] = True
                out.append(sp)
    return out


def tiny_specs() -> list[dict]:
    """Degenerate but legal sizes: populations of 1-3 (a (1+1)-ES as a sprouted deme, as many elites as individuals),
    one dimension, level limit 1, three and more generations per metaepoch."""
    out = []
    n = 0
    for pop, elites in ((1, 1), (2, 1), (2, 2), (3, 3), (3, 1)):
        for maximize in (False, True):
            for variant in ("SEA", "SEAX"):
                n += 1
                child = {"engine": variant, "pop": pop, "gens": 3, "k_elites": elites, "lsc": {"kind": "MetaepochLimit", "n": 3}}
                if variant == "SEAX":
                    child["p_crossover"] = 0.7
                out.append({"name": f"tiny{n}", "seed": 1100 + n, "dim": [1, 2, 3][n % 3], "box": ["sym", "asym", "unit"][n % 3],
                            "fn": ["multi", "plateau", "sphere", "offset"][n % 4], "maximize": maximize,
                            "gsc": {"kind": "MetaepochLimit", "n": 6},
                            "levels": [{"engine": "SEA", "pop": 6, "gens": 1, "lsc": {"kind": "MetaepochLimit", "n": 3 + n % 3}}, child],
                            "sprout": {"kind": "simple", "far": 0.01, "limit": 1 + n % 2}, "hibernation": n % 4 == 1})
    for pop, elites in ((1, 1), (2, 2), (3, 2)):
        for maximize in (False, True):
            n += 1
            out.append({"name": f"tiny{n}", "seed": 1100 + n, "dim": 1 + n % 2, "box": "sym", "fn": "multi", "maximize": maximize,
                        "gsc": {"kind": "MetaepochLimit", "n": 5},
                        "levels": [{"engine": "SEA", "pop": pop, "gens": 3, "k_elites": elites}], "sprout": {"kind": "simple", "far": 0.01, "limit": 1}})
    return out


def partial_specs() -> list[dict]:
    """An objective that is NaN on part of the box (legal: pyhms orders NaN behind every number): demes hold individuals
    "without a value", also while they sleep or after they stopped."""
    out = []
    n = 0
    for root in ({"engine": "SEA", "pop": 10, "gens": 1}, {"engine": "DE", "pop": 10, "gens": 1}, {"engine": "SOBOL", "pop": 12}):
        for sprout in ({"kind": "simple", "far": 0.05, "limit": 2}, {"kind": "nbc", "gen": 1.0, "trunc": 1.0, "fil": 0.5, "limit": 2}):
            for hib in (True, False):
                n += 1
                out.append({"name": f"part{n}", "seed": 1200 + n, "dim": 2, "box": ["sym", "unit"][n % 2], "fn": "partial",
                            "maximize": n % 3 == 0, "gsc": {"kind": "MetaepochLimit", "n": 6}, "hibernation": hib,
                            "levels": [dict(root), {"engine": ["SEA", "DE"][n % 2], "pop": 5, "gens": 1, "lsc": {"kind": "MetaepochLimit", "n": 2}}],
                            "sprout": dict(sprout), "reports": n % 2 == 0, "idlecheck": False})
    return out


def fidelity_specs() -> list[dict]:
    """A different objective per level (cheap landscape for the root, the accurate one further down - what the level
    structure of HMS is for), with and without the memoising FunctionProblem(use_cache=True)."""
    out = []
    n = 0
    rows = [(["sphere", "multi"], [{"engine": "SEA", "pop": 8, "gens": 1}, {"engine": "DE", "pop": 5, "gens": 1}]),
            (["multi", "funnels"], [{"engine": "DE", "pop": 8, "gens": 1}, {"engine": "SEA", "pop": 5, "gens": 2}]),
            (["sphere", "funnels"], [{"engine": "SHADE", "pop": 8, "gens": 1, "mem": 2}, {"engine": "SHADE", "pop": 6, "gens": 1, "mem": 2}]),
            (["linear", "multi", "funnels"], [{"engine": "SEA", "pop": 8, "gens": 1}, {"engine": "DE", "pop": 5, "gens": 1}, {"engine": "CMA", "gens": 2}]),
            (["plateau", "sphere", "multi"], [{"engine": "LHS", "pop": 10}, {"engine": "SEA", "pop": 5, "gens": 1}, {"engine": "LOCAL", "maxiter": 3}])]
    for fns, levels in rows:
        for cache in (False, True):
            for maximize in (False, True):
                n += 1
                lv = [dict(l) for l in levels]
                for l in lv[1:]:
                    l.setdefault("lsc", {"kind": "MetaepochLimit", "n": 3})
                out.append({"name": f"fid{n}", "seed": 1300 + n, "dim": 2, "box": ["sym", "unit", "asym"][n % 3], "fn": fns[0], "fns": list(fns),
                            "maximize": maximize, "use_cache": cache, "levels": lv, "hibernation": n % 4 == 0,
                            "gsc": {"kind": "MetaepochLimit", "n": 5} if n % 2 else {"kind": "WeightedEvalLimit", "n": 90, "w": "equal"},
                            "sprout": {"kind": "simple", "far": 0.03, "limit": 2} if n % 3 else {"kind": "nbc", "gen": 1.0, "trunc": 1.0, "fil": 0.5, "limit": 2},
                            "reports": n % 5 == 0, "dump_at": (2 if n % 6 == 1 else None)})
    # optimum on a face / in a corner of a box whose faces are no short decimals, reached exactly by the local search
    for cache in (False, True):
        for maximize in (False, True):
            for child in ({"engine": "LOCAL"}, {"engine": "CMA", "gens": 3, "lsc": {"kind": "MetaepochLimit", "n": 4}}):
                n += 1
                out.append({"name": f"fid{n}", "seed": 1300 + n, "dim": 2 + n % 3, "box": "thirds", "fn": "linear", "fns": ["linear", "linear"],
                            "maximize": maximize, "use_cache": cache, "gsc": {"kind": "MetaepochLimit", "n": 5}, "dump_at": None,
                            "levels": [{"engine": "SEA", "pop": 8, "gens": 2}, dict(child)], "sprout": {"kind": "simple", "far": 0.02, "limit": 2}})
    for sp in out:
        if sp["dump_at"] is None:
            sp.pop("dump_at")
    return out


def adaptive_specs() -> list[dict]:
    """SEAWithAdaptiveMutation whose mutation strength starts far below the width of the box and grows by a large step in
    every metaepoch without a sprout (children that never stop block re-sprouting), until mutants land several box widths
    outside: the repair has to cope with a strength that changes during the run."""
    out = []
    n = 0
    for box in ("decimal", "sym", "asym", "tiny"):
        for child in ({"engine": "CMA", "gens": 1}, {"engine": "DE", "pop": 5, "gens": 1}):
            n += 1
            out.append({"name": f"adapt{n}", "seed": 1400 + n, "dim": 2 + n % 2, "box": box, "fn": ["multi", "sphere"][n % 2], "maximize": n % 3 == 0,
                        "gsc": {"kind": "MetaepochLimit", "n": 9},
                        "levels": [{"engine": "ADAPT", "pop": 8, "gens": 2, "mstd": 0.04, "mstep": 0.25, "k_elites": 1}, dict(child, lsc={"kind": "DontStop"})],
                        "sprout": {"kind": "simple", "far": 0.01, "limit": 1}, "hibernation": n % 2 == 0})
    return out


def big_specs(tier: str = "quick") -> list[dict]:
    """Runs beyond the size of the randomized corpus: populations of 24-50, 20-40 metaepochs, dimensions up to 10, trees of
    four levels, several candidates per deme and round."""
    L = {"kind": "MetaepochLimit"}
    rows = [
        dict(dim=8, box="sym", fn="multi", hibernation=True, gsc=dict(L, n=40), sprout={"kind": "simple", "far": 0.05, "limit": 3},
             levels=[{"engine": "SEA", "pop": 30, "gens": 2, "k_elites": 2}, {"engine": "CMA", "gens": 3, "lsc": dict(L, n=6)}]),
        dict(dim=3, box="asym", fn="funnels", gsc=dict(L, n=25), sprout={"kind": "simple", "far": 0.03, "limit": 2},
             levels=[{"engine": "DE", "pop": 40, "gens": 1}, {"engine": "SEA", "pop": 12, "gens": 1, "lsc": dict(L, n=8)},
                     {"engine": "DE", "pop": 8, "gens": 1, "lsc": dict(L, n=5)}, {"engine": "CMA", "gens": 2, "lsc": dict(L, n=3)}]),
        dict(dim=10, box="unit", fn="sphere", gsc={"kind": "SingularEvalLimit", "n": 6000}, sprout={"kind": "nbc", "gen": 2.0, "trunc": 0.7, "fil": 1.0, "limit": 3},
             levels=[{"engine": "SHADE", "pop": 24, "gens": 2, "mem": 5}, {"engine": "CMA", "gens": 4, "lsc": {"kind": "FitnessSteadiness", "n": 3, "dev": 1e-6}}]),
        dict(dim=2, box="sym", fn="funnels", hibernation=True, gsc=dict(L, n=30), sprout={"kind": "nbc", "gen": 1.0, "trunc": 1.0, "fil": 0.5, "limit": 2},
             levels=[{"engine": "SEA", "pop": 24, "gens": 1}, {"engine": "SEA", "pop": 10, "gens": 2, "lsc": dict(L, n=7)},
                     {"engine": "DE", "pop": 8, "gens": 1, "lsc": dict(L, n=4)}, {"engine": "LOCAL", "maxiter": 5}]),
        dict(dim=4, box="huge", fn="offset", maximize=True, gsc=dict(L, n=35), sprout={"kind": "simple", "far": 0.02, "limit": 4},
             levels=[{"engine": "DEd", "pop": 25, "gens": 2}, {"engine": "SEAX", "pop": 20, "gens": 2, "p_crossover": 0.7, "lsc": {"kind": "FitnessSteadiness", "n": 3, "dev": 1e-3}}]),
        dict(dim=5, box="decimal", fn="multi", gsc=dict(L, n=20), reports=True,
             sprout={"kind": "composed", "generator": "nbc", "gen": 1.0, "trunc": 1.0, "deme_filters": [["demelimit", 3]], "tree_filters": [["levellimit", 6], ["skipsame"]]},
             levels=[{"engine": "LHS", "pop": 50}, {"engine": "CMAw", "gens": 2, "lsc": dict(L, n=4)}]),
    ]
    out = []
    reps = 1 if tier == "quick" else 6
    for k in range(reps):
        for i, row in enumerate(rows):
            sp = json.loads(json.dumps(row))
            sp.update(name=f"big{k * len(rows) + i + 1}", seed=1500 + 17 * k + i, max_consults=9000, cpu_cap_s=400)
            sp.setdefault("maximize", bool(k % 2))
            if k % 3 == 2 or (k == 0 and i in (3, 5)):
                sp["dump_at"] = [5, 6, 7, 20, 9, 12][i]      # snapshots of trees with dozens of demes on a level
            out.append(sp)
    return out


def user_specs() -> list[dict]:
    """User-supplied pieces of the ordinary kind: a global condition that reads the tree's best individual at every
    consult (also mid-metaepoch), a candidate generator that lists parents depth-first, and a sprout mechanism object
    that has already served another tree."""
    out = []
    n = 0
    base = {"dim": 2, "box": "sym", "fn": "multi"}
    for levels in ([{"engine": "DE", "pop": 8, "gens": 2}],
                   [{"engine": "SEA", "pop": 8, "gens": 2}, {"engine": "CMA", "gens": 2, "lsc": {"kind": "MetaepochLimit", "n": 3}}],
                   [{"engine": "SHADE", "pop": 8, "gens": 1, "mem": 2, "lsc": {"kind": "MetaepochLimit", "n": 3}},
                    {"engine": "DE", "pop": 6, "gens": 2, "lsc": {"kind": "MetaepochLimit", "n": 4}}]):
        for maximize in (False, True):
            n += 1
            out.append(dict(base, name=f"user{n}", seed=1600 + n, maximize=maximize, levels=[dict(l) for l in levels], hibernation=n % 3 == 0,
                            gsc={"kind": "Target", "target": 0.005, "n": 9}, sprout={"kind": "simple", "far": 0.03, "limit": 2}, reports=n % 2 == 0,
                            fn=["multi", "sphere", "zero"][n % 3]))
    four = [{"engine": "SEA", "pop": 10, "gens": 1}, {"engine": "SEA", "pop": 6, "gens": 1, "lsc": {"kind": "MetaepochLimit", "n": 6}},
            {"engine": "DE", "pop": 5, "gens": 1, "lsc": {"kind": "MetaepochLimit", "n": 4}}, {"engine": "CMA", "gens": 1, "lsc": {"kind": "MetaepochLimit", "n": 2}}]
    for limit in (1, 2, 3):
        for hib in (False, True):
            n += 1
            out.append(dict(base, name=f"user{n}", seed=1600 + n, maximize=False, levels=[dict(l) for l in (four if n % 2 else four[:3])],
                            hibernation=hib, gsc={"kind": "MetaepochLimit", "n": 14}, fn="funnels", max_consults=3000,
                            sprout={"kind": "composed", "generator": "dfs", "deme_filters": [["far", 0.02, 2]], "tree_filters": [["levellimit", limit]]}))
    for sprout in ({"kind": "composed", "generator": "best", "deme_filters": [], "tree_filters": [["skipsame"], ["levellimit", 3]]},
                   {"kind": "composed", "generator": "nbc", "gen": 1.0, "trunc": 1.0, "deme_filters": [["demelimit", 2]], "tree_filters": [["levellimit", 3], ["skipsame"]]},
                   {"kind": "simple", "far": 0.03, "limit": 2}, {"kind": "nbc", "gen": 1.0, "trunc": 1.0, "fil": 0.5, "limit": 2}):
        for maximize in (False, True):
            n += 1
            out.append(dict(base, name=f"user{n}", seed=1600 + n, maximize=maximize, reuse_mechanism=True,
                            levels=[{"engine": "SEA", "pop": 8, "gens": 1, "k_elites": 1}, {"engine": "DE", "pop": 5, "gens": 1, "lsc": {"kind": "MetaepochLimit", "n": 2}}],
                            gsc={"kind": "MetaepochLimit", "n": 6}, sprout=json.loads(json.dumps(sprout)), fn="funnels"))
    # two trees in one process: the same TreeConfig object serving a second tree (option flipped in between); a rival tree
    # that maps the user configuration classes to other deme classes
    for k, (levels, hib) in enumerate((([{"engine": "SEA", "pop": 8, "gens": 1}, {"engine": "DE", "pop": 5, "gens": 1, "lsc": {"kind": "MetaepochLimit", "n": 2}}], False),
                                        ([{"engine": "SEA", "pop": 8, "gens": 1}, {"engine": "CMA", "gens": 2, "lsc": {"kind": "MetaepochLimit", "n": 3}}], True),
                                        ([{"engine": "DE", "pop": 8, "gens": 1}, {"engine": "SEA", "pop": 5, "gens": 1, "lsc": {"kind": "MetaepochLimit", "n": 3}},
                                          {"engine": "LOCAL", "maxiter": 3}], False),
                                        ([{"engine": "DE", "pop": 8, "gens": 1}, {"engine": "SEA", "pop": 5, "gens": 1, "lsc": {"kind": "MetaepochLimit", "n": 3}},
                                          {"engine": "CMA", "gens": 1, "lsc": {"kind": "MetaepochLimit", "n": 2}}], True))):
        n += 1
        out.append(dict(base, name=f"user{n}", seed=1600 + n, maximize=k % 2 == 1, second_tree=True, zoom=k in (0, 3), hibernation=hib, levels=[dict(l) for l in levels],
                        gsc=[{"kind": "MetaepochLimit", "n": 7}, {"kind": "WeightedEvalLimit", "n": 90, "w": "equal"},
                             {"kind": "SingularEvalLimit", "n": 80}, {"kind": "WeightedEvalLimit", "n": 60, "w": "root"}][k],
                        sprout={"kind": "simple", "far": 0.02, "limit": 2}, fn="funnels"))
    for k, sprout in enumerate(({"kind": "simple", "far": 0.02, "limit": 2}, {"kind": "nbc", "gen": 1.0, "trunc": 1.0, "fil": 0.5, "limit": 2},
                                {"kind": "composed", "generator": "best", "deme_filters": [], "tree_filters": [["levellimit", 2], ["skipsame"]]})):
        n += 1
        out.append(dict(base, name=f"user{n}", seed=1600 + n, maximize=k == 1, drive=["interleaved"], manual=False,
                        levels=[{"engine": "SEA", "pop": 8, "gens": 1}, {"engine": ["DE", "CMA", "SEA"][k], "pop": 5, "gens": 1, "lsc": {"kind": "DontStop"}}],
                        gsc={"kind": "MetaepochLimit", "n": 7}, sprout=json.loads(json.dumps(sprout)), fn="funnels"))
    for k, child in enumerate(({"engine": "CUSTOM", "pop": 5, "gens": 1}, {"engine": "DOC", "pop": 5}, {"engine": "MEMETIC", "pop": 5, "gens": 1})):
        n += 1      # a tree with user-defined classes snapshotted and restored in a fresh interpreter
        out.append(dict(base, name=f"user{n}", seed=1600 + n, maximize=k == 1, dump_at=1 + k % 2, dump_subprocess=True, branch_copy=True,
                        levels=[{"engine": ["DOC", "SEA", "DE"][k], "pop": 8, "gens": 1}, dict(child, lsc={"kind": "MetaepochLimit", "n": 2})],
                        gsc={"kind": "MetaepochLimit", "n": 5}, sprout={"kind": "simple", "far": 0.02, "limit": 2}, fn="multi"))
    for k, child in enumerate(({"engine": "CUSTOM", "pop": 5, "gens": 1}, {"engine": "DOC", "pop": 5}, {"engine": "CUSTOM", "pop": 5, "gens": 2})):
        n += 1
        out.append(dict(base, name=f"user{n}", seed=1600 + n, maximize=False, rival_tree=True,
                        levels=[{"engine": ["SEA", "DOC", "DE"][k], "pop": 8, "gens": 1}, dict(child, lsc={"kind": "MetaepochLimit", "n": 2})],
                        gsc={"kind": "MetaepochLimit", "n": 5}, sprout={"kind": "simple", "far": 0.02, "limit": 2}, fn="multi"))
    return out


def long_specs(tier: str = "quick") -> list[dict]:
    """Very long runs of very small trees: hundreds of metaepochs, demes still being sprouted (and improving) after
    metaepoch 258 - behaviour that only differs after very many steps."""
    out = []
    rows = [([{"engine": "SEA", "pop": 6, "gens": 1}, {"engine": "DE", "pop": 4, "gens": 1, "lsc": {"kind": "MetaepochLimit", "n": 3}}], False),
            ([{"engine": "DE", "pop": 6, "gens": 1}, {"engine": "SEA", "pop": 4, "gens": 1, "lsc": {"kind": "MetaepochLimit", "n": 4}}], True)]
    for k, (levels, maximize) in enumerate(rows[: 1 if tier == "quick" else 2]):
        out.append({"name": f"long{k + 1}", "seed": 1700 + k, "dim": 2, "box": "sym", "fn": "multi", "maximize": maximize,
                    "levels": [dict(l) for l in levels], "gsc": {"kind": "MetaepochLimit", "n": 300 if k == 0 else 600},
                    "sprout": {"kind": "simple", "far": 0.0005, "limit": 1}, "hibernation": False, "max_consults": 20000, "cpu_cap_s": 600,
                    "reports": False})
    return out


def gen_specs(seed: int, n_random: int, tier: str = "quick") -> list[dict]:
    r = random.Random(seed)
    specs = repo_test_specs() + sweep_specs(tier) + lifecycle_specs() + engine_specs() + init_specs() + manual_specs() + frontend_specs() + branch_specs() + extra_specs() + hibev_specs() + penalty_specs() + tiny_specs() + partial_specs() + fidelity_specs() + adaptive_specs() + big_specs(tier) + user_specs() + long_specs(tier)
    for i in range(n_random):
        specs.append(random_spec(r, i))
    return specs


# ------------------------------------------------------------------ execution (worker processes)
def _run_in_subprocess(spec):
    """fresh interpreter with its own PYTHONHASHSEED (C14)"""
    import subprocess
    import tempfile
    env = dict(os.environ)
    env["PYTHONHASHSEED"] = str(spec["subprocess_hashseed"])
    with tempfile.NamedTemporaryFile("w", suffix=".json", dir=os.environ.get("VERIF_SCRATCH", None), delete=False) as f:
        json.dump({k: v for k, v in spec.items() if k != "subprocess_hashseed"}, f)
        path = f.name
    try:
        p = subprocess.run([sys.executable, "-W", "ignore", "-m", "harness.runner", path], env=env, capture_output=True,
                           text=True, timeout=1800)
        if p.returncode != 0:
            return {"name": spec.get("name", ""), "status": "builderror", "info": p.stderr[-1500:], "events": [], "spec": spec}
        out = json.loads(p.stdout)
        out["spec"] = spec
        return out
    except subprocess.TimeoutExpired:
        return {"name": spec.get("name", ""), "status": "timeout", "info": "subprocess run exceeded 1800 s", "events": [], "spec": spec}
    finally:
        os.unlink(path)


class _Timeout(BaseException):
    pass


def _alarm(signum, frame):
    raise _Timeout()


def _run_one(spec):
    import signal
    import warnings
    warnings.filterwarnings("ignore")
    from .runner import run_spec
    if spec.get("subprocess_hashseed") is not None:
        return _run_in_subprocess(spec)
    # CPU-time cap (not wall-clock: the verdict must not depend on the load of the machine)
    signal.signal(signal.SIGPROF, _alarm)
    signal.setitimer(signal.ITIMER_PROF, float(spec.get("cpu_cap_s", 150)))
    try:
        return run_spec(spec)
    except _Timeout:
        return {"name": spec.get("name", ""), "status": "timeout", "info": "run exceeded its CPU-time cap",
                "events": [], "spec": spec}
    except Exception as ex:  # noqa: BLE001  (building the configuration failed: machinery error)
        import traceback
        return {"name": spec.get("name", ""), "status": "builderror", "info": traceback.format_exc()[-1500:],
                "events": [], "spec": spec}
    finally:
        signal.setitimer(signal.ITIMER_PROF, 0)


def run_specs(specs: list[dict], workers: int = 14, runner=_run_one) -> list[dict]:
    workers = max(2, min(workers, int(os.environ.get("VERIF_NCPU", "0") or 0) or workers))
    ctx = mp.get_context("fork")
    with ctx.Pool(workers) as pool:
        return pool.map(runner, specs, chunksize=max(1, len(specs) // (workers * 6)))


if __name__ == "__main__":
    n = int(sys.argv[1])
    out = Path(sys.argv[2])
    specs = gen_specs(int(os.environ.get("VERIF_SEED", "1")), n)
    res = run_specs(specs)
    json.dump(res, open(out, "w"))
