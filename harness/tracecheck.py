"""Run HMSTrace.tla over a list of recorded traces (batched), return per-trace clause violations."""
from __future__ import annotations

import json
import re
from pathlib import Path

from .common import MachineryError, run_tlc

_LINE = re.compile(r'^<<"TRACE", "(.*)">>$')


def parse_trace_results(out: str) -> list[dict]:
    res = []
    for line in out.splitlines():
        m = _LINE.match(line.strip())
        if m:
            res.append(json.loads(m.group(1).replace('\\"', '"').replace("\\\\", "\\")))
    return res


def validate(traces: list[dict], workdir: Path, tag: str = "traces", module: str = "HMSTrace",
             cfg: str = "HMSTrace.cfg", workers: int = 16) -> dict:
    """traces: [{'name':..., 'events': [...]}]; returns {'results': [...], 'states': n, 'wall_s': s}"""
    workdir.mkdir(parents=True, exist_ok=True)
    path = workdir / f"{tag}.json"
    path.write_text(json.dumps([{"name": t["name"], "events": t["events"]} for t in traces]))
    r = run_tlc(module, cfg, workdir, workers=workers, env={"VERIF_TRACES": str(path)}, deadlock=True, heap="8g")
    results = parse_trace_results(r.out)
    if not r.ok or len(results) != len(traces):
        raise MachineryError(f"trace validation failed ({len(results)}/{len(traces)} traces reported):\n"
                             + "\n".join(r.out.splitlines()[-30:]))
    results.sort(key=lambda x: x["tid"])
    return {"results": results, "states": r.distinct, "generated": r.generated, "wall_s": r.wall_s}


def chunks(traces: list[dict], max_n: int = 200, max_bytes: int = 24_000_000):
    """Split a list of traces into runs of at most max_n traces and about max_bytes of JSON (TLC deserialises a chunk as
    one value: a few big traces - hundreds of metaepochs, dozens of demes per snapshot - must not end up in one file)."""
    out, cur, size = [], [], 0
    for t in traces:
        b = len(json.dumps(t["events"]))
        if cur and (len(cur) >= max_n or size + b > max_bytes):
            out.append(cur)
            cur, size = [], 0
        cur.append(t)
        size += b
    if cur:
        out.append(cur)
    return out
