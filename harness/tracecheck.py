"""Run HMSTrace.tla over a list of recorded traces (batched), return per-trace clause violations."""
from __future__ import annotations

import json
import re
from pathlib import Path

from .common import MachineryError, run_tlc

_LINE = re.compile(r'^<<"TRACE", "(.*)">>$')


def parse_trace_results(out: str) -> list[dict]:
    res = []
    for line in out.splitlines():
        m = _LINE.match(line.strip())
        if m:
            res.append(json.loads(m.group(1).replace('\\"', '"').replace("\\\\", "\\")))
    return res


def validate(traces: list[dict], workdir: Path, tag: str = "traces", module: str = "HMSTrace",
             cfg: str = "HMSTrace.cfg", workers: int = 16) -> dict:
    """traces: [{'name':..., 'events': [...]}]; returns {'results': [...], 'states': n, 'wall_s': s}"""
    workdir.mkdir(parents=True, exist_ok=True)
    path = workdir / f"{tag}.json"
    path.write_text(json.dumps([{"name": t["name"], "events": t["events"]} for t in traces]))
    r = run_tlc(module, cfg, workdir, workers=workers, env={"VERIF_TRACES": str(path)}, deadlock=True, heap="8g")
    results = parse_trace_results(r.out)
    if not r.ok or len(results) != len(traces):
        raise MachineryError(f"trace validation failed ({len(results)}/{len(traces)} traces reported):\n"
                             + "\n".join(r.out.splitlines()[-30:]))
    results.sort(key=lambda x: x["tid"])
    return {"results": results, "states": r.distinct, "generated": r.generated, "wall_s": r.wall_s}
