"""Subprocess entry: drive DemeTree.run() / hms() as a black box with the library's own objects UNWRAPPED (shipped stop
conditions, shipped sprouting mechanisms, user classes derived from shipped ones): only the objective is instrumented -
a plain function that notes the tree's metaepoch counter at every call - plus user-defined global conditions that log
their own consults.  RunAPI.tla decides the sentences of C03 / C05 that can be judged from outside."""
from __future__ import annotations

import json
import random
import re
import sys
import warnings
from pathlib import Path

import numpy as np

from . import objectives
from .common import MachineryError, run_tlc
from .configs import BOXES, _level

_LINE = re.compile(r'^<<"RUN", "(.*)">>$')


def run_specs(seed: int, tier: str) -> list[dict]:
    r = random.Random(seed * 5 + 2)
    out = []
    n = 36 if tier == "quick" else 240
    engines = ["SEA", "DE", "SHADE", "CMA", "LHS"]
    for k in range(n):
        root = engines[k % 5] if k % 5 != 3 else "SEA"
        child = ["DE", "CMA", "SEA", "SHADE", "LOCAL"][(k // 5) % 5]
        lv0 = {"engine": root, "pop": r.choice([8, 10]), "gens": r.choice([1, 2])}
        lv1 = {"engine": child, "pop": 6, "gens": r.choice([1, 2, 3]), "lscn": r.choice([2, 3, 4])}
        if child == "LOCAL":
            lv1 = {"engine": "LOCAL", "maxiter": 3}
        for lv in (lv0, lv1):
            if lv["engine"] == "SHADE":
                lv["mem"] = 3
        gsc = [{"kind": "MetaepochLimit", "n": r.choice([0, 1, 3, 5, 8])}, {"kind": "SingularEvalLimit", "n": r.choice([1, 40, 120, 260])},
               {"kind": "UserLimitOrTarget", "n": r.choice([12, 25, 40]), "target": r.choice([0.02, 0.005, 0.1])},
               {"kind": "DontRun", "n": 0}, {"kind": "UserTargetOrLimit", "n": r.choice([6, 10]), "target": 0.01},
               {"kind": "MetaepochLimit", "n": r.choice([2, 4, 6])}][k % 6]
        out.append({"name": f"api{k}", "seed": r.randrange(1, 10 ** 6), "dim": 2, "box": r.choice(["sym", "asym", "unit"]),
                    "fn": r.choice(["multi", "funnels", "sphere", "plateau"]), "maximize": k % 4 == 1, "levels": [lv0, lv1],
                    "sprout": r.choice(["simple", "nbc"]), "limit": r.choice([2, 3]), "hibernation": k % 3 == 0, "gsc": gsc,
                    "entry": "hms" if k % 4 == 3 else "run"})
    return out


def run_one(spec: dict) -> dict:
    warnings.filterwarnings("ignore")
    from pyhms import hms
    from pyhms.config import TreeConfig
    from pyhms.core.problem import FunctionProblem
    from pyhms.sprout import get_NBC_sprout, get_simple_sprout
    from pyhms.stop_conditions import DontRun, DontStop, GlobalStopCondition, MetaepochLimit, SingularProblemEvalLimitReached
    from pyhms.tree import DemeTree

    bounds = np.array(BOXES[spec["box"]](spec["dim"]), dtype=np.float64)
    maximize = bool(spec["maximize"])
    events: list = []
    holder = {"tree": None}

    def mc_now() -> int:
        t = holder["tree"]
        return -1 if t is None else int(t.metaepoch_count)

    seen_values: list = []

    def fun(x):
        v = objectives.truth(spec["fn"], x, bounds, maximize)
        xx = np.asarray(x, dtype=np.float64)
        inbox = int(xx.shape == (spec["dim"],) and bool(np.all(xx >= bounds[:, 0])) and bool(np.all(xx <= bounds[:, 1])))
        events.append([0, mc_now(), inbox])
        seen_values.append(v)
        return v

    # user-defined global conditions that log their own consults - one extends the shipped MetaepochLimit, one the base class
    class LimitOrTarget(MetaepochLimit):
        def __init__(self, target, limit):
            super().__init__(limit)
            self.target = target

        def __call__(self, tree) -> bool:
            best = tree.best_individual
            good = best is not None and (best.fitness >= self.target if maximize else best.fitness <= self.target)
            v = bool(good) or super().__call__(tree)
            events.append([1, int(tree.metaepoch_count), int(v)])
            return v

    class TargetOrLimit(GlobalStopCondition):
        def __init__(self, target, limit):
            self.target, self.limit = target, limit

        def __call__(self, tree) -> bool:
            best = tree.best_individual
            good = best is not None and (best.fitness >= self.target if maximize else best.fitness <= self.target)
            v = bool(good) or tree.metaepoch_count >= self.limit
            events.append([1, int(tree.metaepoch_count), int(v)])
            return v

    problem = FunctionProblem(fun, bounds=bounds, maximize=maximize)
    g = spec["gsc"]
    t = -g.get("target", 0.0) if maximize else g.get("target", 0.0)
    gsc = {"MetaepochLimit": lambda: MetaepochLimit(g["n"]), "DontRun": lambda: DontRun(),
           "SingularEvalLimit": lambda: SingularProblemEvalLimitReached(g["n"]),
           "UserLimitOrTarget": lambda: LimitOrTarget(t, g["n"]), "UserTargetOrLimit": lambda: TargetOrLimit(t, g["n"])}[g["kind"]]()
    levels = []
    for li, lv in enumerate(spec["levels"]):
        lsc = DontStop() if li == 0 else MetaepochLimit(int(lv.get("lscn", 3)))
        levels.append(_level(lv, problem, lsc, bounds, li))
    rng = float(np.mean(bounds[:, 1] - bounds[:, 0]))
    mech = (get_simple_sprout(0.05 * rng, level_limit=spec["limit"]) if spec["sprout"] == "simple"
            else get_NBC_sprout(gen_dist_factor=1.0, trunc_factor=1.0, fil_dist_factor=0.5, level_limit=spec["limit"]))
    options = {"log_level": "warning", "hibernation": bool(spec["hibernation"]), "random_seed": int(spec["seed"])}
    observable = 1
    try:
        if spec["entry"] == "hms":
            observable = 0          # the tree is built inside the front end: the counter cannot be read during the run
            tree = hms(levels, gsc, mech, options)
            rootinit = -1
        else:
            tree = DemeTree(TreeConfig(levels, gsc, mech, options=options))
            rootinit = len(events)
            for e in events:
                e[1] = 0            # calls made during construction: the counter is 0
            holder["tree"] = tree
            tree.run()
    except Exception as ex:  # noqa: BLE001
        return {"name": spec["name"], "error": repr(ex)[:300]}
    kind = {"UserTargetOrLimit": "UserLimitOrTarget"}.get(g["kind"], g["kind"])
    # what can be seen of the finished tree from outside
    lv = tree.levels
    demes = [d for level in lv for d in level]
    mc = int(tree.metaepoch_count)
    struct = (len(lv) == len(spec["levels"]) and len(lv[0]) == 1 and lv[0][0].id == "root"
              and len({d.id for d in demes}) == len(demes)
              and all(d.level == li for li, level in enumerate(lv) for d in level)
              and all(sum(1 for p in lv[li - 1] if any(c is d for c in p.children)) == 1 for li in range(1, len(lv)) for d in lv[li])
              and all(not d.children for d in lv[-1]) and all(any(c is k for k in lv[li + 1]) for li in range(len(lv) - 1) for p in lv[li] for c in p.children)
              and all(0 <= d.started_at <= mc for d in demes)
              and all(c.started_at >= p.started_at for p in demes for c in p.children))
    overlimit = any(sum(1 for d in level if d.is_active) > spec["limit"] for level in lv[1:])
    best = tree.best_individual
    haslocal = any(x["engine"] == "LOCAL" for x in spec["levels"])
    bestval = (max(seen_values) if maximize else min(seen_values)) if seen_values else None
    besttrue = int(best is not None and float(best.fitness) == objectives.truth(spec["fn"], best.genome, bounds, maximize))
    bestok = int(best is not None and (haslocal or float(best.fitness) == bestval))
    return {"name": spec["name"], "events": events, "observable": observable, "counted": 1, "rootinit": rootinit,
            "gsc": {"kind": kind, "n": int(g["n"])},
            "final": {"mc": int(tree.metaepoch_count), "tev": int(tree.n_evaluations),
                      "levsum": int(sum(d.n_evaluations for _, d in tree.all_demes)),
                      "struct": int(bool(struct)), "overlimit": int(bool(overlimit)), "besttrue": besttrue, "bestok": bestok},
            "spec": spec}


def main(d: str, seed: str, tier: str) -> None:
    import multiprocessing as mp
    d = Path(d).resolve()
    specs = run_specs(int(seed), tier)
    with mp.get_context("fork").Pool(12) as pool:
        runs = pool.map(run_one, specs, chunksize=1)
    errs = [r for r in runs if r.get("error")]
    ok = [r for r in runs if not r.get("error")]
    path = d / "runs.json"
    path.write_text(json.dumps([{k: v for k, v in r.items() if k != "spec"} for r in ok]))
    t = run_tlc("RunAPI", "RunAPI.cfg", d, env={"VERIF_RUNS": str(path)}, heap="4g", workers=8)
    res = []
    for line in t.out.splitlines():
        m = _LINE.match(line.strip())
        if m:
            res.append(json.loads(m.group(1).replace('\\"', '"').replace("\\\\", "\\")))
    if not t.ok or len(res) != len(ok):
        raise MachineryError("RunAPI validation failed:\n" + "\n".join(t.out.splitlines()[-25:]))
    path.unlink()
    res.sort(key=lambda x: x["rid"])
    kinds = {}
    for r in ok:
        kinds[r["gsc"]["kind"] + ("/hms" if not r["observable"] else "")] = kinds.get(r["gsc"]["kind"] + ("/hms" if not r["observable"] else ""), 0) + 1
    out = {"runs": res, "states": t.distinct, "errors": [{"name": r["name"], "error": r["error"]} for r in errs],
           "stats": {"runs": len(ok), "events": sum(len(r["events"]) for r in ok), "by_condition": kinds,
                     "user_condition_true_mid_run": sum(1 for r in ok if r["gsc"]["kind"] == "UserLimitOrTarget"
                                                        and any(e[0] == 1 and e[2] == 1 for e in r["events"]) and r["final"]["mc"] < r["gsc"]["n"]),
                     "final_mc": sorted({r["final"]["mc"] for r in ok})},
           "sample": {"spec": ok[0]["spec"], "final": ok[0]["final"], "first_events": ok[0]["events"][:5]} if ok else {}}
    (d / "summary.json").write_text(json.dumps(out))


if __name__ == "__main__":
    main(*sys.argv[1:4])
