"""Developer probe: run N random specs and print clause counts (not part of the registered checks)."""
import collections, json, sys, os
from pathlib import Path
sys.path.insert(0, "/verif")
from harness.corpus import gen_specs, run_specs
from harness.tracecheck import validate
n = int(sys.argv[1]); seed = int(sys.argv[2]) if len(sys.argv) > 2 else 1
specs = gen_specs(seed, n)
res = run_specs(specs)
print(collections.Counter(r['status'] for r in res))
for r in res:
    if r['status'] not in ('ok', 'stalled'):
        print(r['name'], r['status'], r['info'][-700:])
for r in list(res):
    for lr in r.get('loaded', []):
        res.append(lr)          # continued snapshots / deep copies are traces of their own
traced = [r for r in res if r['events']]
v = {'results': [], 'states': 0, 'wall_s': 0.0}
for i in range(0, len(traced), 150):
    part = validate(traced[i:i + 150], Path('/verif/work/t/tv'), tag=f'chunk{i // 150}')
    for r_, t_ in zip(part['results'], traced[i:i + 150]):
        cont = t_.get('dump_event')
        if cont is not None:    # the prefix of a continued trace is the live trace itself
            r_['viol'] = [x for x in r_['viol'] if x[1] > cont]
    v['results'] += part['results']; v['states'] += part['states']; v['wall_s'] += part['wall_s']
print('tlc', v['states'], round(v['wall_s'], 1))
c = collections.Counter(); ex = {}
for r in v['results']:
    for k in set(x[0] for x in r['viol']):
        c[k] += 1; ex.setdefault(k, []).append((r['name'], [x[1] for x in r['viol'] if x[0] == k][:4]))
for k, n_ in c.most_common():
    print(k, n_, ex[k][:5])
print(sum(1 for r in v['results'] if not r['viol']), 'clean of', len(v['results']))
