"""Deterministic, pure objective functions used by the corpus.  All are functions of the normalised
coordinates u = (x - lo) / (hi - lo) so that every box class sees the same landscape.

`truth(name, x, bounds, maximize)` is the harness' own pure copy used as the oracle for C02.
"""
from __future__ import annotations

import math

import numpy as np


def _norm(x, bounds):
    b = np.asarray(bounds, dtype=np.float64)
    return (np.asarray(x, dtype=np.float64) - b[:, 0]) / (b[:, 1] - b[:, 0])


def _sphere(u):
    c = np.linspace(0.3, 0.7, len(u))
    return float(np.sum((u - c) ** 2))


def _multi(u):
    # four basins of different depth per pair of coordinates
    c = np.linspace(0.3, 0.7, len(u))
    return float(np.sum((u - c) ** 2) + 0.05 * np.sum(1.0 - np.cos(8 * math.pi * (u - c))))


def _funnels(u):
    d = len(u)
    centers = [np.full(d, 0.25), np.full(d, 0.75), np.array([0.25, 0.75] * d)[:d], np.array([0.75, 0.25] * d)[:d]]
    depth = [0.0, 0.01, 0.02, 0.03]
    return float(min(np.sum((u - c) ** 2) + dp for c, dp in zip(centers, depth)))


def _plateau(u):
    # integer-valued: many ties and plateaus
    return float(math.floor(40.0 * _sphere(u)))


def _zero(u):
    # exactly 0.0 on a ball around the optimum: reports with best fitness == 0.0
    return float(max(0.0, _sphere(u) - 0.02))


def _linear(u):
    return float(np.sum(u))  # optimum on a face / corner of the box


def _offset(u):
    # large offset, small differences: relative float tolerances (np.isclose) confuse nearly equal values
    return 1000.0 + _sphere(u)


def _partial(u):
    # only partially defined on the box: NaN on a slab (comparisons between two NaN individuals are decided by
    # Python's global `random` generator in pyhms - a seeded run must still be reproducible)
    return float("nan") if u[0] > 0.7 else _multi(u)


def _penalty(u):
    # death penalty: the worst possible value (+inf; the harness mirrors it to -inf for maximisation) on a slab of the box.
    # It equals the value an exhausted budget wrapper answers with - but it IS an evaluation of the objective.
    return math.inf if u[-1] > 0.8 else _multi(u)


FUNCS = {"penalty": _penalty, "partial": _partial, "offset": _offset, "sphere": _sphere, "multi": _multi, "funnels": _funnels, "plateau": _plateau, "zero": _zero,
         "linear": _linear}


def truth(name: str, x, bounds, maximize: bool) -> float:
    v = FUNCS[name](_norm(x, bounds))
    return -v if maximize else v
