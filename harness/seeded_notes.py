"""Developer tool: add 'what' / 'needs' (from the sub-agents' reports) to /verif/seeded/<id>/meta.json."""
import json
from pathlib import Path

NOTES = {
 "C01-a": ("reflect repair rewritten as a single mirror at the violated face (early return skips the final clip)",
           "a DE/SHADE donor overshooting a bound by more than one box width: DE scaling > 1 or SHADE's occasional f > 1; never with default DE"),
 "C02-a": ("DE/SHADE operators decide 'trial identical to parent' with np.isclose instead of ==, so a close trial keeps the parent's fitness with a different genome",
           "a DE/SHADE population contracted to ~1e-5 relative diameter (late phase), or a box so small that everything is within atol=1e-8"),
 "C03-a": ("LocalDeme skips adding scipy's nfev to its counter when the local search ends unsuccessfully",
           "a LOCAL level whose search hits maxiter (rarely used option) or fails its line search"),
 "C04-a": ("CMADeme refactor: the branch for CMA-ES' own stop criterion no longer appends the metaepoch's generations to the history",
           "a CMA leaf stopped by CMA-ES' internal criterion inside a metaepoch while holding the tree's best"),
 "C05-a": ("run() reuses the post-metaepoch verdict returned by run_step() instead of consulting the global condition again after sprouting",
           "an evaluation-based global condition whose budget is crossed by the initial population of a freshly sprouted deme"),
 "C06-a": ("DemeTree.run_metaepoch consults a deme's local stop condition before giving it its turn and deactivates it without running",
           "a local condition whose value changes between turns: AllChildrenStopped with children that stop, DontRun as LSC"),
 "C07-a": ("_do_sprout publishes a parent's children on their level only after the whole batch: _next_child_id repeats the same id",
           "one parent sprouting two or more demes in a single round (user-composed mechanism without DemeLimit(1))"),
 "C08-a": ("LevelLimit keeps every candidate at least as good as the last admitted one (>=) instead of strictly better than the first rejected",
           "an exact fitness tie across the cut-off while at least one slot is free (plateau / quantised objectives)"),
 "C09-a": ("centroid cached again, reset before each round for ACTIVE demes only: a deme that ran its last metaepoch keeps a stale centroid",
           "a SEA/DE/SHADE deme whose centroid was read, which then moved in its last metaepoch and stopped; NBC_FarEnough considering inactive demes"),
 "C10-a": ("LevelLimit counts as occupied only the active children of the parents that offered candidates this round",
           ">=3 levels; a middle-level deme that has stopped while its children are still active; another parent offering when the level is full"),
 "C11-a": ("EADeme keeps breeding from the older population when a generation's best regressed (the regressed generation is recorded)",
           "a non-elitist engine (MWEA), generations >= 2, a regressing generation and p_mutation < 1 (unchanged copies reveal the wrong lineage)"),
 "C12-a": ("DE/SHADE survivor selection through a helper that treats np.isclose(trial, parent) as a tie: a slightly worse trial replaces its parent",
           "fitness differences below 1e-8 + 1e-5*|f|: late convergence or an objective with a large offset"),
 "C13-a": ("SHADE p-best ordering for maximisation computed as argsort(f)[::-1] instead of argsort(-f): tie groups are reversed",
           "SHADE, maximisation, and equal fitness values among the leaders (plateau / quantised objective)"),
 "C14-a": ("CMA demes sprouted by one parent in the same metaepoch derive their seed with hash((seed, id)) (salted per process)",
           "seeded CMA level + a mechanism sprouting >= 2 demes per parent per round + processes with different PYTHONHASHSEED"),
 "C15-a": ("NBC takes 'individuals in front of the current position' as the better ones: an individual tied with a non-best one can attach to its equal",
           "two or more individuals with exactly equal fitness (not the best) where the tied partner is the nearest"),
 "C16-a": ("StatsGatheringProblem: class-level shared durations list, n_evaluations = len(durations)",
           "two or more stats wrappers in one process (one stack or consecutive stacks)"),
 "C17-a": ("reflect: flips = np.floor(a / r) instead of np.floor_divide(a, r) (no longer consistent with np.mod)",
           "a coordinate about one ulp below an exact multiple of an inexactly representable range, at least one range outside the box"),
 "C18-a": ("hibernation flag decided by 'a child was started at the deme's own iteration count' instead of 'the round took a sprout from it'",
           "hibernation on; a deme that sprouted, fell asleep and sprouts again (its own clock lags behind the tree's)"),
 "C19-a": ("AbstractDeme.__setstate__ for 'old snapshots' merges defaults over the pickled state: every loaded deme has _hibernating = False",
           "hibernation on and a snapshot taken while some deme is asleep (never at k = 0 or 1)"),
 "C20-a": ("format_deme_children_tree pops freshly sprouted demes from the list returned by deme.children (the internal list)",
           "tree()/summary() called while freshly sprouted demes exist (right after a sprouting step), then looking again"),
}
for sid, (what, needs) in NOTES.items():
    p = Path("/verif/seeded") / sid / "meta.json"
    if p.exists():
        j = json.loads(p.read_text())
        j["what"], j["needs"] = what, needs
        j["breaks_property"] = j["property"]
        p.write_text(json.dumps(j, indent=1))
        print("updated", sid)
