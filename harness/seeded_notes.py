"""Developer tool: add 'what' / 'needs' (from the sub-agents' reports) to /verif/seeded/<id>/meta.json."""
import json
from pathlib import Path

NOTES = {
 "C01-a": ("reflect repair rewritten as a single mirror at the violated face (early return skips the final clip)",
           "a DE/SHADE donor overshooting a bound by more than one box width: DE scaling > 1 or SHADE's occasional f > 1; never with default DE"),
 "C02-a": ("DE/SHADE operators decide 'trial identical to parent' with np.isclose instead of ==, so a close trial keeps the parent's fitness with a different genome",
           "a DE/SHADE population contracted to ~1e-5 relative diameter (late phase), or a box so small that everything is within atol=1e-8"),
 "C03-a": ("LocalDeme skips adding scipy's nfev to its counter when the local search ends unsuccessfully",
           "a LOCAL level whose search hits maxiter (rarely used option) or fails its line search"),
 "C04-a": ("CMADeme refactor: the branch for CMA-ES' own stop criterion no longer appends the metaepoch's generations to the history",
           "a CMA leaf stopped by CMA-ES' internal criterion inside a metaepoch while holding the tree's best"),
 "C05-a": ("run() reuses the post-metaepoch verdict returned by run_step() instead of consulting the global condition again after sprouting",
           "an evaluation-based global condition whose budget is crossed by the initial population of a freshly sprouted deme"),
 "C06-a": ("DemeTree.run_metaepoch consults a deme's local stop condition before giving it its turn and deactivates it without running",
           "a local condition whose value changes between turns: AllChildrenStopped with children that stop, DontRun as LSC"),
 "C07-a": ("_do_sprout publishes a parent's children on their level only after the whole batch: _next_child_id repeats the same id",
           "one parent sprouting two or more demes in a single round (user-composed mechanism without DemeLimit(1))"),
 "C08-a": ("LevelLimit keeps every candidate at least as good as the last admitted one (>=) instead of strictly better than the first rejected",
           "an exact fitness tie across the cut-off while at least one slot is free (plateau / quantised objectives)"),
 "C09-a": ("centroid cached again, reset before each round for ACTIVE demes only: a deme that ran its last metaepoch keeps a stale centroid",
           "a SEA/DE/SHADE deme whose centroid was read, which then moved in its last metaepoch and stopped; NBC_FarEnough considering inactive demes"),
 "C10-a": ("LevelLimit counts as occupied only the active children of the parents that offered candidates this round",
           ">=3 levels; a middle-level deme that has stopped while its children are still active; another parent offering when the level is full"),
 "C11-a": ("EADeme keeps breeding from the older population when a generation's best regressed (the regressed generation is recorded)",
           "a non-elitist engine (MWEA), generations >= 2, a regressing generation and p_mutation < 1 (unchanged copies reveal the wrong lineage)"),
 "C12-a": ("DE/SHADE survivor selection through a helper that treats np.isclose(trial, parent) as a tie: a slightly worse trial replaces its parent",
           "fitness differences below 1e-8 + 1e-5*|f|: late convergence or an objective with a large offset"),
 "C13-a": ("SHADE p-best ordering for maximisation computed as argsort(f)[::-1] instead of argsort(-f): tie groups are reversed",
           "SHADE, maximisation, and equal fitness values among the leaders (plateau / quantised objective)"),
 "C14-a": ("CMA demes sprouted by one parent in the same metaepoch derive their seed with hash((seed, id)) (salted per process)",
           "seeded CMA level + a mechanism sprouting >= 2 demes per parent per round + processes with different PYTHONHASHSEED"),
 "C15-a": ("NBC takes 'individuals in front of the current position' as the better ones: an individual tied with a non-best one can attach to its equal",
           "two or more individuals with exactly equal fitness (not the best) where the tied partner is the nearest"),
 "C16-a": ("StatsGatheringProblem: class-level shared durations list, n_evaluations = len(durations)",
           "two or more stats wrappers in one process (one stack or consecutive stacks)"),
 "C17-a": ("reflect: flips = np.floor(a / r) instead of np.floor_divide(a, r) (no longer consistent with np.mod)",
           "a coordinate about one ulp below an exact multiple of an inexactly representable range, at least one range outside the box"),
 "C18-a": ("hibernation flag decided by 'a child was started at the deme's own iteration count' instead of 'the round took a sprout from it'",
           "hibernation on; a deme that sprouted, fell asleep and sprouts again (its own clock lags behind the tree's)"),
 "C19-a": ("AbstractDeme.__setstate__ for 'old snapshots' merges defaults over the pickled state: every loaded deme has _hibernating = False",
           "hibernation on and a snapshot taken while some deme is asleep (never at k = 0 or 1)"),
 "C20-a": ("format_deme_children_tree pops freshly sprouted demes from the list returned by deme.children (the internal list)",
           "tree()/summary() called while freshly sprouted demes exist (right after a sprouting step), then looking again"),
}

NOTES.update({
 "C11-a": ("DemeTree.run_metaepoch calls a new AbstractDeme.skip_metaepoch() for hibernating demes, which re-appends the whole last metaepoch (all its generations) to the history",
           "hibernation on, a non-leaf deme that actually sleeps, generations >= 2 on its level"),
 "C13-a": ("SHADE p-best ordering for maximisation computed as argsort(f)[::-1] instead of argsort(-f): tie groups are reversed",
           "SHADE level, maximisation, exact fitness ties among the leaders (plateau / quantised objective)"),
 "C14-a": ("LHS / Sobol demes seed their scipy sampler with hash((random_seed, level, id)): the id is a str, so the seed depends on PYTHONHASHSEED",
           "an LHS or Sobol level and two processes with different hash seeds (in-process repeats stay equal)"),
 "C15-a": ("NBC takes the individuals in front of the current position as the better ones (positional slice instead of index()): a tied individual can attach to its equal",
           "two or more individuals with exactly equal fitness (not the best) where the tied partner is the nearest"),
 "C16-a": ("StatsGatheringProblem unwraps to the innermost problem and calls it directly: wrappers beneath a stats wrapper are bypassed",
           "a stats wrapper outside at least one other wrapper (depth >= 2)"),
 "C17-a": ("apply_bounds refactored onto shared offsets; the inside test became (offsets >= 0) & (offsets <= range), which rounds differently from (x >= lo) & (x <= hi)",
           "a coordinate above the upper face by less than half an ulp of the range-sized offset (1-2 ulps for ordinary boxes)"),
 "C20-a": ("AbstractDeme.best_individual cached while a deme rests (stopped / hibernating); the cache is dropped only when read while awake",
           "hibernation on; a deme that sleeps, wakes by sprouting, improves, sleeps again; its best read while asleep, NOT read during the awake window, read again later"),
 "C01-b": ("sample_normal's rejection loop vectorised: one first draw, then 256 retries at once and argmax of the accept mask (all-rejected -> retries[0], outside the box)",
           "a sprouted SEA/DE/SHADE deme whose sample_std_dev is comparable to the box width in >= 4 dimensions"),
 "C02-b": ("MWEA UtilityFunction shifts the election group's fitnesses in place; winners keep fitness - min(group) unless a mutation re-evaluates them",
           "an MWEA level with p_mutation < 1"),
 "C03-b": ("EADeme uses vars(config) instead of a copy: config.problem is overwritten with the deme's own counting wrapper, so later EA demes of the level wrap earlier ones",
           "a non-root SEA level holding at least two demes built from the same config object"),
 "C04-b": ("DemeTree.best_individual cached and refreshed in __init__ and at the end of run_metaepoch only: individuals of freshly sprouted demes are ignored until the next metaepoch",
           "a sprout whose initial population holds a new global best; visible at that boundary, or in the result when the run ends right after a sprout (evaluation budgets)"),
 "C05-b": ("_do_sprout consults the global condition after each created child and breaks out of the inner loop only: the next parent still sprouts",
           ">= 3 levels, two parents with accepted seeds in one round, an evaluation-based condition crossed by the first parent's child"),
 "C06-b": ("LocalDeme.run_metaepoch returns early when scipy made no iteration - before recording the metaepoch and before deactivating the deme",
           "a LOCAL level and a seed at which L-BFGS-B stops at once (plateau / piecewise constant objectives, stationary seed)"),
 "C07-b": ("child registered on its level inside a helper, then _do_sprout returns early when the global condition holds - before parent.add_child(child)",
           "an evaluation-based global condition crossed exactly by a freshly sprouted child's initial population"),
 "C08-b": ("LevelLimit loops over range(len({parent levels})) instead of the parent levels: with a gap in the level set the deepest sprouting level is never filtered",
           ">= 3 levels, an upper level without active demes (root stopped by its LSC) while lower demes keep offering and their target level is full"),
 "C09-b": ("FarEnough / NBC_FarEnough compare a candidate with deme.children instead of tree.levels[level + 1]: cousins are ignored",
           ">= 3 levels, two middle-level demes, a candidate near a deme sprouted by the other parent"),
 "C10-b": ("SkipSameSprout builds the array of already used seeds once per call (first parent with children) instead of per parent level",
           ">= 3 levels, parents of two different levels with children in the same round, a candidate repeating an old seed"),
 "C12-b": ("Population.topk via np.partition: everything at least as good as the k-th value, truncated to the first k in array order (elites sit at the end)",
           "SEA family, a fitness tie exactly on the cut-off of the (mu+k) selection while the elite is strictly better than every offspring"),
 "C18-b": ("NBC generators cache the DemeCandidates of a hibernating deme - the object the filters emptied in place - so the deme is never offered again and never woken",
           "hibernation on, NBC generator, a sleeping deme whose children all stop while the global condition is false"),
 "C19-b": ("pickle_dump writes to a scratch file named with np.random.randint when the target exists: an overwriting dump advances numpy's global generator",
           "the snapshot path already exists (second dump into one file, mkstemp)"),
 "C20-b": ("the *** marker decided with np.isclose(deme best, global best) instead of ==",
           "two displayed demes with different best fitness within 1e-8 + 1e-5*|best| (near-zero optimum, or large objective offset)"),
})
# mutants that the checks missed when they were first run against them, and what was strengthened
HISTORY = {
 "C11-a": "first run: missed by C11 (caught by C18 only) - generations recorded without an observed iteration were skipped; C11 clause now falls back to 'evaluated by this deme since the last boundary'",
 "C20-a": "first run: missed - the recorder itself read best_individual at every boundary, which hides a cache that depends on when the tree was looked at; look pairs (dense vs sparse observation, PairTrace kind 'look') added",
 "C01-b": "first run: missed - no configuration had an initial sample as wide as the box in >= 4 dimensions; corpus family init* added",
 "C18-b": "first run: masked by known finding KF-C18-stall (same idle-metaepoch shape); the finding's signature now requires that the generator had proposed candidates for every sleeping deme (clause C18_IdleNotOffered otherwise)",
 "C10-b": "first run: missed - SkipSameSprout table had parents on one level only; Sprout.tla family skipsame3 (parents on two levels, both dictionary orders) added",
 "C14-b": "first run: missed - no objective returned NaN, so Python's global generator was never consulted; partially defined objective added to the repeat corpus",
 "C17-b": "first run: missed - only float64 populations were fed to apply_bounds; single vectors, int64 and float32 forms of integer-valued inputs added",
 "C05-b": "caught at first run by a side effect (C05_CounterEqualsPerformed on a mid-round snapshot); consults from outside the protocol are now handled explicitly (ban of demes created after the condition was observed true)",
}
for sid, (what, needs) in NOTES.items():
    p = Path("/verif/seeded") / sid / "meta.json"
    if p.exists():
        j = json.loads(p.read_text())
        j["what"], j["needs"] = what, needs
        j["breaks_property"] = j["property"]
        if sid in HISTORY:
            j["history"] = HISTORY[sid]
        p.write_text(json.dumps(j, indent=1))
        print("updated", sid)
