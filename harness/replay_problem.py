"""C16 / C03-budget: replay the Problem.tla table on real wrapper stacks, call by call, both directions."""
from __future__ import annotations

import json
import math
import sys

import numpy as np

from pyhms.core.problem import (EvalCountingProblem, EvalCutoffProblem, FunctionProblem, PrecisionCutoffProblem,
                                StatsGatheringProblem, get_function_problem)

OPT, EPS = 1.0, 0.25
# a shifted benchmark with a fine target precision (|optimum| / precision > 1e9: relative tolerances must not creep in);
# all values exactly representable
OPT2, EPS2 = -1024.0, 2.0 ** -27
VALUES2 = {"opt": [-1024.0], "edge": [-1024.0 + 2.0 ** -27, -1024.0 - 2.0 ** -27],
           "out": [-1024.0 + 2.0 ** -26, -1024.0 - 3 * 2.0 ** -27, "W", 5.0, -1024.0 + 2.0 ** -20, "B"]}
# "W" / "B": the infinity that is the worst / the best value for the direction - an objective may return them itself
# (death penalty for infeasible points); a wrapper must treat them like any other value
# decimal optimum and precision (neither 0.3 nor 0.1 nor their sum / difference is a double): "within the precision" is
# decided on the exact values of the doubles involved (Fractions, below) - 0.4 is OUTSIDE 0.3 +- 0.1, 0.2 is inside
OPT3, EPS3 = 0.3, 0.1
VALUES3 = {"opt": [0.3], "edge": [0.2, 0.39999999999999997, 0.20000000000000004, 0.19999999999999998],
           "out": [0.4, 0.19999999999999996, "W", 0.5, 0.4000000000000001, "B"]}
VALUES = {"opt": [1.0], "edge": [1.25, 0.75], "out": [1.5, -3.0, "W", 1.2500000000000002, "B"]}
BOUNDS = np.array([[-2.0, 3.0], [0.5, 0.75]])


class Base:
    def __init__(self):
        self.values = []
        self.calls = 0

    def __call__(self, x, *args, **kwargs):
        self.calls += 1
        self.last_args = (args, dict(kwargs))
        return self.values[self.calls - 1]


def _check_classes():
    """the value classes are what exact arithmetic on the doubles says (no float subtraction in the oracle)"""
    from fractions import Fraction as F
    for opt, eps, vals in ((OPT, EPS, VALUES), (OPT2, EPS2, VALUES2), (OPT3, EPS3, VALUES3)):
        for cls, vs in vals.items():
            for v in vs:
                if isinstance(v, str):
                    continue
                d = abs(F(v) - F(opt))
                real = "opt" if d == 0 else "edge" if d <= F(eps) else "out"
                assert (real == cls) or (cls == "edge" and real in ("opt", "edge")), (opt, eps, v, cls, real)


_check_classes()


def build(stack, maximize, opt=OPT, eps=EPS):
    base = Base()
    fp = FunctionProblem(base, bounds=BOUNDS, maximize=maximize)
    p = fp
    layers = []
    for k in reversed(stack):       # stack is outermost first
        if k == "count":
            p = EvalCountingProblem(p)
        elif k == "stats":
            p = StatsGatheringProblem(p)
        elif k == "precision":
            p = PrecisionCutoffProblem(p, opt, eps)
        else:
            p = EvalCutoffProblem(p, int(k[3:]))
        layers.append(p)
    layers.reverse()
    return base, fp, p, layers


def main(table_path, out_path):
    viol, n_eval, samples = [], 0, []
    distinct = 0
    with open(table_path) as f:
        for li, line in enumerate(f):
            if not line.strip():
                continue
            c = json.loads(line)
            distinct += 1
            for maximize, conc in ((False, 1), (True, 1)) + (((False, 2), (True, 2), (bool(li % 2), 3)) if "precision" in c["stack"] else ()):
                VAL = {1: VALUES, 2: VALUES2, 3: VALUES3}[conc]
                base, fp, top, layers = build(c["stack"], maximize, *{1: (OPT, EPS), 2: (OPT2, EPS2), 3: (OPT3, EPS3)}[conc])
                worst = -math.inf if maximize else math.inf
                # concrete values for the classes (vary the representative with the position)
                vals = [VAL[cls][(li + j) % len(VAL[cls])] for j, cls in enumerate(c["calls"])]
                vals = [worst if v == "W" else -worst if v == "B" else v for v in vals]
                base.values = list(vals) + [0.0] * 8
                ents = c.get("ents") or [1] * len(c["calls"])     # layer (1 = top) each call enters the stack at
                sig0 = f"stack={'/'.join(c['stack'])} maximize={maximize} calls={','.join(c['calls'])}" + (
                    f" entering_at_layer={','.join(map(str, ents))}" if any(e != 1 for e in ents) else "") + (" optimum=-1024 precision=2^-27" if conc == 2 else " optimum=0.3 precision=0.1" if conc == 3 else "")
                # static transparency
                if not (np.array_equal(top.bounds, BOUNDS) and top.maximize == maximize
                        and get_function_problem(top) is fp):
                    viol.append({"clause": "C16_DelegatesBoundsAndDirection", "signature": sig0, "detail": {}})
                for a, b in ((1.0, 2.0), (2.0, 1.0), (1.0, 1.0), (math.inf, 0.0), (-math.inf, 0.0)):
                    if bool(top.worse_than(a, b)) != bool(fp.worse_than(a, b)):
                        viol.append({"clause": "C16_DelegatesComparison", "signature": sig0, "detail": {"a": a, "b": b}})
                vi = 0
                for j, (cls, exp) in enumerate(zip(c["calls"], c["obs"])):
                    n_eval += 1
                    x = np.array([0.1 * j, 0.6])
                    before = base.calls
                    # evaluate(phenome, *args, **kwargs): extra arguments belong to the objective and must arrive unchanged
                    extra = [((), {}), ((7,), {}), ((), {"scale": 0.5}), ((3, "a"), {"scale": 2.0, "tag": None})][(li + j) % 4]
                    base.last_args = None
                    base.values[base.calls] = vals[j]      # the objective's value for THIS call (refused calls consume none)
                    r = layers[ents[j] - 1].evaluate(x, *extra[0], **extra[1])
                    if base.calls == before + 1 and base.last_args != (extra[0], extra[1]):
                        viol.append({"clause": "C16_Transparent", "signature": f"{sig0} call#{j + 1}",
                                     "detail": {"passed": repr(extra), "objective_received": repr(base.last_args)}})
                    sig = f"{sig0} call#{j + 1}"
                    expected_ret = worst if exp["ret"] == "worst" else vals[base.calls - 1] if base.calls > before else None
                    if exp["ret"] == "worst":
                        if not (r == worst) or base.calls != before:
                            viol.append({"clause": "C16_CutoffRefusesWithWorst", "signature": sig,
                                         "detail": {"returned": repr(r), "base_called": base.calls != before}})
                    else:
                        if base.calls != before + 1 or r != vals[j]:
                            viol.append({"clause": "C16_Transparent", "signature": sig,
                                         "detail": {"returned": repr(r), "expected": repr(vals[j])}})
                    if base.calls != exp["base"]:
                        viol.append({"clause": "C16_BaseCalls", "signature": sig,
                                     "detail": {"base_calls": base.calls, "expected": exp["base"]}})
                    for i, (lay, k) in enumerate(zip(layers, c["stack"])):
                        if lay.n_evaluations != exp["n"][i]:
                            viol.append({"clause": "C16_CountLaw" if not k.startswith("cut") else "C16_CutoffForwardsFirstN",
                                         "signature": sig + f" layer#{i + 1}={k}",
                                         "detail": {"n_evaluations": lay.n_evaluations, "expected": exp["n"][i]}})
                        if k == "precision":
                            eta = 0 if lay.ETA == np.inf else int(lay.ETA)
                            if eta != exp["eta"][i] or bool(lay.hit_precision) != exp["hit"][i]:
                                viol.append({"clause": "C16_PrecisionFirstHit", "signature": sig + f" layer#{i + 1}",
                                             "detail": {"ETA": repr(lay.ETA), "hit": lay.hit_precision,
                                                        "expected_eta": exp["eta"][i], "expected_hit": exp["hit"][i]}})
                        if k == "stats" and len(lay.durations) != exp["n"][i]:
                            viol.append({"clause": "C16_CountLaw", "signature": sig + f" layer#{i + 1}=stats durations",
                                         "detail": {}})
                if len(samples) < 4 and any(k.startswith("cut") for k in c["stack"]) and "precision" in c["stack"] and not maximize:
                    samples.append({"stack": c["stack"], "calls": c["calls"], "values": vals, "expected": c["obs"]})
            if len(viol) > 400:
                break
    json.dump({"evaluations": n_eval, "distinct": distinct, "violations": viol[:400], "samples": samples},
              open(out_path, "w"))


if __name__ == "__main__":
    main(sys.argv[1], sys.argv[2])
