"""Stage: the shared run corpus (recorded traces of the real library) validated by HMSTrace.tla."""
from __future__ import annotations

import collections
import gzip
import json
import os
from pathlib import Path

from .common import MachineryError, NCPU, run_py, seed
from .stages import stage

N_RANDOM = {"quick": 150, "thorough": 1500}
CHUNK = 200


def _stats(runs: list[dict]) -> dict:
    """Antecedent coverage of the corpus, measured on the traces (harness side, for evidence / vacuity)."""
    c = collections.Counter()
    for r in runs:
        evs = r["events"]
        if not evs:
            continue
        cfg = evs[0]["cfg"]
        c["traces"] += 1
        c["events"] += len(evs)
        c[f"levels={cfg['nlevels']}"] += 1
        c["hibernation_on" if cfg["hib"] else "hibernation_off"] += 1
        c["maximize" if cfg["max"] else "minimize"] += 1
        for lv in cfg["levels"]:
            c["engine:" + lv["variant"]] += 1
            if lv["variant"] == "CUSTOM":
                c["custom_deme_class"] += 1
        c["gsc:" + cfg["gsc"]] += 1
        first_true = None
        queued_after = 0
        for i, e in enumerate(evs):
            c["ev:" + e["e"]] += 1
            for b in e.get("b", []):
                c["objective_calls"] += len(b[2])
            if e["e"] == "gsc":
                if e["v"] and first_true is None:
                    first_true = e["by"]
                    c["gsc_first_true_at:" + e["by"]] += 1
                    if e["by"] == "deme":
                        # demes still to run in this metaepoch after the first TRUE
                        later = [x for x in evs[i + 1:] if x["e"] == "gsc" and x["by"] == "deme"]
                        if later:
                            c["gsc_true_with_demes_still_queued"] += 1
            if e["e"] == "sprout":
                n = sum(len(x[1]) for x in e["ret"])
                c["rounds"] += 1
                c["rounds_with_sprouts" if n else "rounds_empty"] += 1
                if len(e["ret"]) > 1:
                    c["rounds_with_several_parents"] += 1
                ngen = sum(len(x[1]) for x in e["gen"])
                nused = sum(len(x[1]) for x in e["used"])
                if nused < ngen:
                    c["rounds_where_filters_removed"] += 1
                c["far_atoms"] += len(e["atoms"]["far"])
            sn = e.get("snap")
            if sn:
                for d in sn["demes"]:
                    if d["hib"]:
                        c["deme_snapshots_hibernating"] += 1
                    if sn.get("full") and "new" in d:
                        c["generations_recorded"] += len(d["new"])
                if sn.get("refused", 0) > 0:
                    c["snapshots_after_refusal"] += 1
            if e["e"] == "lsc" and e["v"]:
                c["lsc_true"] += 1
            if e["e"] == "report":
                c["reports"] += 1
                rep = e["rep"]
                if rep.get("bestzero"):
                    c["reports_best_is_zero"] += 1
                if any(d["me"] == 0 and d["id"] != "root" for d in e["snap"]["demes"]):
                    c["reports_with_fresh_deme"] += 1
                if any(d["hib"] for d in e["snap"]["demes"]):
                    c["reports_with_hibernating_deme"] += 1
                if any(not d["act"] for d in e["snap"]["demes"]):
                    c["reports_with_stopped_deme"] += 1
            if e["e"] == "dump":
                c["dumps"] += 1
                c["dump_at_mc=%d" % e["snap"]["mc"]] += 1
                if any(d["cls"] == "CMADeme" and d["act"] for d in e["snap"]["demes"]):
                    c["dumps_with_live_cma"] += 1
                if any(d["hib"] for d in e["snap"]["demes"]):
                    c["dumps_with_hibernating_deme"] += 1
                for d in e["snap"]["demes"]:
                    c["dump_has:" + d["cls"]] += 1
        if r.get("dump_event") is not None:
            c["loaded_continuations"] += 1
        c["status:" + r["status"]] += 1
        exp = r.get("spec", {}).get("expect")
        if exp and evs and evs[-1]["e"] == "end" and r.get("dump_event") is None:
            # spec -> code: did the real run end in the very state the TLC behaviour predicted?
            got = [{"id": d["id"], "act": bool(d["act"]), "hib": bool(d["hib"]), "me": d["me"], "sa": d["sa"]}
                   for d in evs[-1]["snap"]["demes"]]
            want = [{k: d[k] for k in ("id", "act", "hib", "me", "sa")} for d in exp["demes"]]
            c["scenarios_replayed"] += 1
            if got == want and evs[-1]["snap"]["mc"] == exp["mc"]:
                c["scenarios_followed_exactly"] += 1
    return dict(c)


def corpus_stage(tier: str) -> dict:
    def build(d: Path) -> dict:
        script = d / "build.py"
        n = int(os.environ.get("VERIF_N_RANDOM", N_RANDOM[tier]))
        p = run_py(["-m", "harness.corpus_build", str(d), str(n), str(seed()), tier], timeout=7200,
                   env={"OMP_NUM_THREADS": "1", "OPENBLAS_NUM_THREADS": "1"})
        if p.returncode != 0:
            raise MachineryError("corpus build failed:\n" + p.stdout[-3000:] + p.stderr[-3000:])
        return json.loads((d / "summary.json").read_text())
    return stage("corpus", tier, build)
