"""C13 (R5S selection): replay the R5S.tla table on R5SSelection in both directions."""
from __future__ import annotations

import json
import sys

import numpy as np

from pyhms.core.individual import Individual
from pyhms.core.problem import FunctionProblem
from pyhms.utils.r5s import R5SSelection

BOUNDS = np.array([[-100.0, 100.0]] * 2)


def main(table_path, out_path):
    viol, n_eval, distinct, samples = [], 0, 0, []
    for li, line in enumerate(open(table_path)):
        if not line.strip():
            continue
        c = json.loads(line)
        distinct += 1
        res = {}
        for maximize in (False, True):
            prob = FunctionProblem(lambda x: 0.0, bounds=BOUNDS, maximize=maximize)
            inds = []
            for rank, pos in enumerate(c["pop"]):
                g = 2.0 + 0.25 * rank
                inds.append(Individual(np.array([0.5 * pos, 1.0]), prob, -g if maximize else g))
            order = list(range(len(inds)))
            order = order[li % len(order):] + order[:li % len(order)]       # input order must not matter
            n_eval += 1
            sig = f"pop(best first)={c['pop']} maximize={maximize}"
            try:
                sel = R5SSelection()([inds[k] for k in order])
            except Exception as ex:  # noqa: BLE001
                viol.append({"clause": "C13_R5SSelection", "signature": sig, "detail": {"exception": repr(ex)[:200]}})
                continue
            got = [int(round(i.genome[0] / 0.5)) for i in sel]
            res[maximize] = got
            if got != c["expect"] and sum(1 for v in viol if v["clause"] == "Info_R5SModel") < 100:
                # R5S' own algorithm is not a listed property (C13 asks for direction symmetry, checked below)
                viol.append({"clause": "Info_R5SModel", "signature": sig, "detail": {"got": got, "expected": c["expect"]}})
        if len(res) == 2 and res[False] != res[True] and sum(1 for v in viol if v["clause"] == "C13_R5SDirectionSymmetry") < 150:
            viol.append({"clause": "C13_R5SDirectionSymmetry", "signature": f"pop(best first)={c['pop']}",
                         "detail": {"minimize": res[False], "maximize": res[True]}})
        if len(samples) < 3 and li % 1500 == 7:
            samples.append({"pop_best_first": c["pop"], "expected": c["expect"]})
    json.dump({"evaluations": n_eval, "distinct": distinct, "nontrivial": distinct, "violations": viol, "samples": samples},
              open(out_path, "w"))


if __name__ == "__main__":
    main(sys.argv[1], sys.argv[2])
