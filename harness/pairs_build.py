"""Subprocess entry: build the pair corpus in <dir>; PairTrace.tla decides equality, HMSTrace.tla validates each run."""
from __future__ import annotations

import json
import re
import sys
import time
from pathlib import Path

from .common import MachineryError, run_tlc
from .corpus import run_specs
from .pairs import history_pairs, look_groups, repeat_triples, twin_pairs
from .tracecheck import validate

_LINE = re.compile(r'^<<"PAIR", "(.*)">>$')


def _compare_chunk(args):
    pairs, d, tag = args
    path = d / f"{tag}.json"
    path.write_text(json.dumps(pairs))
    r = run_tlc("PairTrace", "PairTrace.cfg", d / f"meta-{tag}", workers=4, env={"VERIF_PAIRS": str(path)}, heap="6g")
    res = []
    for line in r.out.splitlines():
        m = _LINE.match(line.strip())
        if m:
            res.append(json.loads(m.group(1).replace('\\"', '"').replace("\\\\", "\\")))
    if not r.ok or len(res) != len(pairs):
        raise MachineryError(f"pair comparison failed ({len(res)}/{len(pairs)}):\n" + "\n".join(r.out.splitlines()[-25:]))
    path.unlink()
    res.sort(key=lambda x: x["pid"])
    return res, r.distinct


def compare(pairs: list[dict], d: Path, tag: str) -> tuple[list[dict], int]:
    """PairTrace.tla over all pairs, in chunks of bounded size (TLC parses the JSON once per worker: one file with
    thousands of pairs does not fit)"""
    from concurrent.futures import ThreadPoolExecutor
    chunks, cur, size = [], [], 0
    for p in pairs:
        n = len(json.dumps(p))
        if cur and (size + n > 25_000_000 or len(cur) >= 250):
            chunks.append(cur)
            cur, size = [], 0
        cur.append(p)
        size += n
    if cur:
        chunks.append(cur)
    with ThreadPoolExecutor(max_workers=3) as ex:
        parts = list(ex.map(_compare_chunk, [(c, d, f"{tag}{i}") for i, c in enumerate(chunks)]))
    res, states, base = [], 0, 0
    for (part, st), c in zip(parts, chunks):
        for x in part:
            x["pid"] += base
        res += part
        states += st
        base += len(c)
    return res, states


def main(d: str, seed: str, tier: str) -> None:
    d = Path(d).resolve()
    seed = int(seed)
    n_twin, n_rep, n_sub = (60, 60, 16) if tier == "quick" else (500, 500, 60)
    n_look = 24 if tier == "quick" else 200
    tw = twin_pairs(seed, n_twin)
    rp = repeat_triples(seed, n_rep, n_sub)
    lk = look_groups(seed, n_look)
    hp = history_pairs(seed, 8 if tier == "quick" else 40)
    specs = ([s for p in tw for s in p] + [s for t in rp for s in t if s is not None] + [s for a, bs in lk for s in [a] + bs]
             + [s for p in hp for s in p])
    t0 = time.time()
    runs = run_specs(specs)
    by = {r["name"]: r for r in runs}
    bad = [r for r in runs if r["status"] in ("builderror", "timeout")]
    if bad:
        raise MachineryError(f"pair run could not be executed: {bad[0]['name']}: {bad[0]['status']} {bad[0]['info']}")
    pairs = []
    for a, b in tw:
        pairs.append({"name": a["name"], "kind": "twin", "a": by[a["name"]]["events"], "b": by[b["name"]]["events"]})
    for a, b, c in rp:
        pairs.append({"name": a["name"] + "~scrambled", "kind": "repeat", "a": by[a["name"]]["events"], "b": by[b["name"]]["events"]})
        if c is not None:
            pairs.append({"name": a["name"] + "~subprocess", "kind": "repeat", "a": by[a["name"]]["events"], "b": by[c["name"]]["events"]})
    for a, b in hp:
        pairs.append({"name": a["name"] + "~after_others", "kind": "repeat", "a": by[a["name"]]["events"], "b": by[b["name"]]["events"]})
    # C20: what the accessors answer must not depend on when the tree was looked at before
    def strip(evs):
        return [{k: v for k, v in e.items() if k not in ("i", "b")} for e in evs]
    look_stats = {"look_groups": len(lk), "look_pairs": 0, "looks_compared": 0, "look_runs_with_hibernation": 0,
                  "look_runs_where_a_deme_woke": 0}
    for a, bs in lk:
        ea = strip(by[a["name"]]["events"])
        look_stats["look_runs_with_hibernation"] += int(any(any(dm[2] for dm in e["demes"]) for e in ea))
        hib_seen = set()
        woke = False
        for e in ea:
            for dm in e["demes"]:
                if dm[2]:
                    hib_seen.add(dm[0])
                elif dm[0] in hib_seen and dm[1]:
                    woke = True
        look_stats["look_runs_where_a_deme_woke"] += int(woke)
        for b in bs:
            eb = strip(by[b["name"]]["events"])
            mcs = {e["mc"] for e in eb if e["e"] == "look"}
            fa = [e for e in ea if e["e"] == "lookend" or e["mc"] in mcs]
            pairs.append({"name": b["name"], "kind": "look", "a": fa, "b": eb})
            look_stats["look_pairs"] += 1
            look_stats["looks_compared"] += min(len(fa), len(eb))
    res, states = compare(pairs, d, "pairs")
    # every run of the pair corpus is also a trace of HMS
    traced = [r for r in runs if r["events"] and r["spec"].get("look") is None]
    from .mod_corpus import CHUNK
    v = {"results": [], "states": 0}
    from .tracecheck import chunks
    for ci, part in enumerate(chunks(traced, CHUNK)):
        vi = validate(part, d / "tlc", tag=f"pairtraces{ci}")
        v["results"] += vi["results"]
        v["states"] += vi["states"]
        (d / "tlc" / f"pairtraces{ci}.json").unlink()
    stats = {"twin_pairs": len(tw), "repeat_pairs": len(rp), "subprocess_pairs": sum(1 for t in rp if t[2] is not None), "history_pairs": len(hp),
             "twin_with_cma": sum(1 for a, _ in tw if any(l["engine"].startswith("CMA") for l in a["levels"])),
             "twin_with_local": sum(1 for a, _ in tw if any(l["engine"] == "LOCAL" for l in a["levels"])),
             "twin_with_sprouts": sum(1 for a, _ in tw if any(e["e"] == "sprout" and e["ret"] for e in by[a["name"]]["events"])),
             "events_compared": sum(min(len(p["a"]), len(p["b"])) for p in pairs), **look_stats}
    out = {"pairs": res, "pair_states": states, "stats": stats, "t_run_s": round(time.time() - t0, 1),
           "status": {r["name"]: r["status"] for r in runs},
           "trace_results": [{"name": t["name"], "viol": r["viol"]} for r, t in zip(v["results"], traced)],
           "trace_states": v["states"],
           "specs": {s["name"]: s for s in specs},
           "sample": {"pair": pairs[0]["name"], "kind": pairs[0]["kind"], "events": len(pairs[0]["a"]),
                      "first_events_a": [{k: v for k, v in e.items() if k not in ("snap", "b")} for e in pairs[0]["a"][:4]]}}
    (d / "summary.json").write_text(json.dumps(out))


if __name__ == "__main__":
    main(*sys.argv[1:4])
