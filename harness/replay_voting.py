"""Growth (beyond the listed properties): replay the Voting.tla table on the multiwinner policies of MWEA."""
from __future__ import annotations

import json
import sys

import numpy as np

from pyhms.demes.single_pop_eas.multiwinner import BlocPolicy, BordaPolicy, CCGreedyPolicy, SNTVPolicy


def main(table_path, out_path):
    viol, n_eval, distinct, samples = [], 0, 0, []
    pol = {"sntv": SNTVPolicy(), "bloc": BlocPolicy(), "borda": BordaPolicy(), "cc": CCGreedyPolicy()}
    for li, line in enumerate(open(table_path)):
        if not line.strip():
            continue
        c = json.loads(line)
        distinct += 1
        prefs = np.array(c["profile"], dtype=int) - 1
        for name, p in pol.items():
            ok = {tuple(sorted(w)) for w in c[name]}
            for seed in (range(4) if name == "cc" else range(1)):
                np.random.seed(100 + seed)
                n_eval += 1
                try:
                    got = tuple(sorted(int(x) + 1 for x in p(prefs, c["k"])))
                except Exception as ex:  # noqa: BLE001
                    viol.append({"clause": f"Voting_{name}", "signature": f"rule={name} profile={c['profile']} k={c['k']}",
                                 "detail": {"exception": repr(ex)[:200]}})
                    break
                if got not in ok:
                    if len(viol) < 300:
                        viol.append({"clause": f"Voting_{name}", "signature": f"rule={name} profile={c['profile']} k={c['k']}",
                                     "detail": {"got": got, "acceptable": sorted(ok)[:5]}})
                    break
        if len(samples) < 3 and li % 97 == 5:
            samples.append(c)
    json.dump({"evaluations": n_eval, "distinct": distinct, "nontrivial": distinct, "violations": viol, "samples": samples},
              open(out_path, "w"))


if __name__ == "__main__":
    main(sys.argv[1], sys.argv[2])
