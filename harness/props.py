"""Property registry: property id -> evaluation function.  Each returns a PropResult."""
from __future__ import annotations

from dataclasses import dataclass, field

from .common import Violation


@dataclass
class PropResult:
    violations: list            # list[Violation]
    coverage: dict
    assumptions: list
    level: str = "model_checking"
    vacuity: list = field(default_factory=list)   # antecedents the run failed to reach (machinery failure)


REGISTRY = {}


def prop(pid):
    def deco(fn):
        REGISTRY[pid] = fn
        return fn
    return deco


def _viol(pid, items):
    return [Violation(pid, v["clause"], v["signature"], v.get("detail", {})) for v in items]


# ----------------------------------------------------------------------------- C17
@prop("C17")
def c17(tier: str) -> PropResult:
    from .mod_bounds import bounds_stage
    st = bounds_stage(tier)
    viols = []
    for name in st.get("model_violations", []):
        viols.append(Violation("C17", f"C17_model_{name}", f"Bounds.tla law {name} violated on the definition",
                               {"tlc": st.get("tlc_tail", "")[-1500:]}))
    rep = st.get("replay", {"evaluations": 0, "distinct": 0, "violations": [], "samples": []})
    viols += _viol("C17", rep["violations"])
    cov = {
        "states": st["tlc"]["distinct"], "transitions": st["tlc"]["generated"],
        "traces_validated_against_impl": rep["evaluations"],
        "samples": rep["samples"] or [{"note": "no sample"}],
        "evaluations": rep["evaluations"], "distinct_nontrivial": rep["distinct"],
        "rule": "every lattice case (method x box x input <<k,d>>) of Bounds.tla, enumerated exhaustively by TLC, "
                "times 9 float concretisations (unit, 1/8, 0.1, 1e-9, 1e9, 2^-20 around 1.0, shifted 1e6, "
                "0.1 around 1000, 1/3); distinct = distinct (case, concretisation) pairs fed to apply_bounds",
        "exhaustive": True,
        "model": {"module": "Bounds.tla", "cfg": st["tlc"]["cfg"], "lattice_cases": rep.get("lattice_cases"),
                  "laws": ["LandsInBox", "IdentityInside", "ClipNearestFace", "ReflectCongruent",
                           "ToroidalCongruent", "Determined"],
                  "action_coverage": st["tlc"]["coverage"]},
    }
    return PropResult(viols, cov, [
        "IEEE rounding is outside TLA+: lattice values are concretised by the harness and compared with the "
        "tolerance the property states (exact containment; 4 ulp for identity; (16+8n) ulp for the repaired value)",
        "apply_bounds is the only bound-repair entry point (its callers are covered by C01)",
    ])
