"""Property registry: property id -> evaluation function.  Each returns a PropResult."""
from __future__ import annotations

from dataclasses import dataclass, field

from .common import Violation


@dataclass
class PropResult:
    violations: list            # list[Violation]
    coverage: dict
    assumptions: list
    level: str = "model_checking"
    vacuity: list = field(default_factory=list)   # antecedents the run failed to reach (machinery failure)


REGISTRY = {}


def prop(pid):
    def deco(fn):
        REGISTRY[pid] = fn
        return fn
    return deco


def _viol(pid, items):
    return [Violation(pid, v["clause"], v["signature"], v.get("detail", {})) for v in items]


# ----------------------------------------------------------------------------- C17
def _table_result(pid, st, module):
    viols = []
    for name in st.get("model_violations", []):
        viols.append(Violation(pid, f"model:{name}", f"{module}.tla law {name} violated on the definition",
                               {"tlc": st.get("tlc_tail", "")[-1500:]}))
    rep = st.get("replay", {"evaluations": 0, "distinct": 0, "violations": [], "samples": []})
    viols += [v for v in _viol(pid, rep["violations"]) if v.clause.startswith(pid + "_")]
    return viols, rep


@prop("C17")
def c17(tier: str) -> PropResult:
    from .mod_table import table_stage
    st = table_stage("bounds", "Bounds", tier, "harness/replay_bounds.py")
    viols, rep = _table_result("C17", st, "Bounds")
    cov = {
        "states": st["tlc"]["distinct"], "transitions": st["tlc"]["generated"],
        "traces_validated_against_impl": rep["evaluations"],
        "samples": rep["samples"] or [{"note": "no sample"}],
        "evaluations": rep["evaluations"], "distinct_nontrivial": rep["distinct"],
        "rule": "every lattice case (method x box x input <<k,d>>) of Bounds.tla, enumerated exhaustively by TLC, "
                "times 9 float concretisations (unit, 1/8, 0.1, 1e-9, 1e9, 2^-20 around 1.0, shifted 1e6, "
                "0.1 around 1000, 1/3); distinct = distinct (case, concretisation) pairs fed to apply_bounds",
        "exhaustive": True,
        "model": {"module": "Bounds.tla", "cfg": st["tlc"]["cfg"], "lattice_cases": rep.get("lattice_cases"),
                  "laws": ["LandsInBox", "IdentityInside", "ClipNearestFace", "ReflectCongruent",
                           "ToroidalCongruent", "Determined"],
                  "action_coverage": st["tlc"]["coverage"]},
    }
    return PropResult(viols, cov, [
        "scales of the concretisations: 1e-300 ... 1e9, and 2^1022 (near-max: only lattice points that are finite doubles); "
        "inputs whose offset x - lower overflows there are the known finding KF-C17-overflow",
        "IEEE rounding is outside TLA+: lattice values are concretised by the harness and compared with the "
        "tolerance the property states (exact containment; 4 ulp for identity; (16+8n) ulp for the repaired value)",
        "apply_bounds is the only bound-repair entry point (its callers are covered by C01)",
    ])


# ----------------------------------------------------------------------------- corpus / model based properties
STALL_SIG = "idle metaepoch in which every active deme was hibernating at its start"
CONV_SIG = "idle metaepoch in which every awake active deme ran but re-used the fitness of unchanged genomes"

# clauses checked on the design model, by property (INVARIANT / PROPERTY names of HMSModel.tla)
MODEL_CLAUSES = {
    "C03": ["Inv_C03_TotalIsSumOfLevels", "Inv_C03_BudgetHard", "Inv_C03_TotalEqualsCalls", "Inv_C03_RequestsSplit"],
    "C05": ["Inv_C05_WindDownAtMostOne", "Inv_C05_DoneImpliesGsc", "Inv_C05_CounterEqualsPerformed",
            "Act_C05_NoSproutAfterGsc", "Act_C05_McMonotone", "Termination"],
    "C06": ["Inv_C06_SteppedExactlyOnce", "Inv_C06_NewbornHasNotRun", "Act_C06_InactiveFrozen", "Act_C06_StopCauses"],
    "C07": ["Inv_C07_Structure", "Inv_C07_IdLaw"],
    "C08": ["Inv_C08_ActiveWithinLimit", "Act_C08_RoundWithinFree"],
    "C18": ["Inv_C18_HibIff", "Inv_C18_OffMeansNever", "Inv_C18_AsleepMeansFrozen", "Inv_C18_NoIdleUnlessAllAsleep"],
}

ASSUME_TRACE = [
    "objective functions of the corpus are deterministic (harness/objectives.py); the recorder's atoms inbox / "
    "truth / centroid-is-mean / far are computed by the harness from the configured bounds and a pure copy of the objective",
    "call attribution walks the Python stack to the nearest deme frame (harness side only)",
    "CMA-ES' internal stop is not observable through the public API and is accepted whenever a CMA deme turns "
    "inactive without a stop-condition verdict",
    "bounds of the design model: see coverage.model; bounds of the corpus: see coverage.corpus",
]


# Traces of the `part*` family (objective NaN on part of the box) are judged on the control plane only: pyhms uses NaN
# as its own "not evaluated yet" marker and orders two NaN individuals by a coin flip (problem.py worse_than), so
# clauses that compare fitness values, best individuals or report texts are not meaningful for them.
CONTROL_PLANE = {"C03", "C05", "C06", "C07", "C08", "C18", "RunCrashed"}


def _corpus_violations(pid: str, tier: str):
    from .mod_corpus import corpus_stage
    cs = corpus_stage(tier)
    viols = []
    for r in cs["results"]:
        per = {}
        cont = r.get("dump_event")
        for clause, idx in r["viol"]:
            if cont is not None and idx <= cont:
                continue        # the prefix of a continued snapshot trace is the live trace itself
            if r["name"].startswith("part") and clause.split("_")[0] not in CONTROL_PLANE:
                continue        # NaN-valued objective: only the control-plane clauses are meaningful (see CONTROL_PLANE)
            per.setdefault(clause, []).append(idx)
        if cont is not None and pid == "C19" and "_copied" not in r["name"]:
            for clause, idxs in per.items():
                if clause.split("_")[0] in ("C03", "C04", "C07", "C08") or clause == "RunCrashed":   # "the loaded tree can be run further"
                    viols.append(Violation("C19", "C19_ContinuationValid",
                                           f"C19_ContinuationValid ({clause}) trace={r['name']} event={idxs[0]}",
                                           {"events": idxs[:10], "trace": r["name"], "clause": clause}))
        for clause, idxs in per.items():
            if clause == "C18_IdleAllAsleep" and pid == "C18":
                viols.append(Violation("C18", "C18_NoIdleMetaepoch", f"{STALL_SIG} (trace={r['name']} event={idxs[0]})",
                                       {"events": idxs[:10], "trace": r["name"]}))
            elif clause == "C18_IdleConverged" and pid == "C18":
                viols.append(Violation("C18", "C18_NoIdleMetaepoch", f"{CONV_SIG} (trace={r['name']} event={idxs[0]})",
                                       {"events": idxs[:10], "trace": r["name"]}))
            elif clause == "C18_IdleNotOffered" and pid == "C18":
                viols.append(Violation("C18", "C18_NoIdleMetaepoch",
                                       "idle metaepoch: every active deme was hibernating and the candidate generator had proposed "
                                       f"nothing for a sleeping deme, so no round could wake it (trace={r['name']} event={idxs[0]})",
                                       {"events": idxs[:10], "trace": r["name"]}))
            elif clause in ("C18_IdleAllAsleep", "C18_IdleConverged", "C18_IdleNotOffered"):
                pass
            elif clause in ("RunCrashed",) and pid == "C05":
                viols.append(Violation("C05", "C05_RunCompletes", f"run raised an exception (trace={r['name']})",
                                       {"trace": r["name"]}))
            elif clause.startswith(pid + "_"):
                viols.append(Violation(pid, clause, f"{clause} trace={r['name']} event={idxs[0]}",
                                       {"events": idxs[:10], "trace": r["name"]}))
    if pid == "C05":
        for nt in cs["notrace"]:
            if nt["status"] in ("timeout", "crash"):
                viols.append(Violation("C05", "C05_RunCompletes", f"run did not complete: {nt['status']} (trace={nt['name']})",
                                       {"info": nt["info"]}))
    return cs, viols


def _model_violations(pid: str, tier: str):
    from .mod_model import model_stage
    ms = model_stage(tier)
    viols = []
    for name in ms["violated"]:
        if name in MODEL_CLAUSES.get(pid, []) or (name == "property" and pid in MODEL_CLAUSES):
            viols.append(Violation(pid, f"model:{name}", f"design model violates {name}", {"tlc": ms["tail"][-1500:]}))
    return ms, viols


def _corpus_cov(cs, ms, pid, extra_rule=""):
    st = cs["stats"]
    cov = {
        "states": (ms["distinct"] if ms else 0) + cs["tlc_states"],
        "transitions": (ms["generated"] if ms else 0) + cs["tlc_states"],
        "traces_validated_against_impl": cs["n_traces"],
        "samples": [cs["sample"]],
        "evaluations": cs["n_traces"], "distinct_nontrivial": cs["n_traces"],
        "rule": "one evaluation = one recorded run of the real library (randomized configurations over the engine matrix, "
                "the repository's own test configurations, TLC-generated scenario scripts), validated event by event "
                "against HMS.tla by TLC; all runs are distinct configurations/seeds" + extra_rule,
        "corpus": {k: v for k, v in st.items()},
        "informational_clauses": _info_counts(cs),
        "trace_spec_states": cs["tlc_states"],
    }
    if ms:
        cov["model"] = {"module": "MC_HMS.tla", "cfg": ms["cfg"], "distinct_states": ms["distinct"],
                        "generated": ms["generated"], "depth": ms["depth"], "action_coverage": ms["action_coverage"],
                        "clauses": MODEL_CLAUSES.get(pid, []),
                        "stall_witness_reachable": ms["stall_witness_reachable"],
                        "witnesses": ms.get("witnesses", {}), "liveness": ms.get("liveness", {}), "simulation": ms.get("simulation"), "manual_stepping": ms.get("manual_stepping"), "protocol_variants": ms.get("protocol_variants"),
                        "growth_invariants": ["Inv_G_WoundDownOneStepLater", "Inv_G_ClockNotAhead", "Inv_G_ClockInSync", "Inv_G_SinceSproutRawNonNeg",
                                              "Inv_G_SinceSproutBounded"]}
    return cov


def _info_counts(cs):
    """occurrences of clauses that are deliberately NOT violations (stricter than any listed property): protocol
    desynchronisation, id scheme, level order, verdicts of shipped conditions other than MetaepochLimit / DontRun, ..."""
    import collections
    c = collections.Counter()
    for r in cs["results"]:
        for clause in {v[0] for v in r["viol"]}:
            if not (len(clause) > 3 and clause[0] == "C" and clause[1:3].isdigit()):
                c[clause] += 1
    return dict(c)


def _need(stats, keys):
    return [k for k in keys if stats.get(k, 0) == 0]


TABLES = {   # name -> (module, replay script, description of the enumerated space)
    "bounds": ("Bounds", "harness/replay_bounds.py",
               "Bounds.tla table (every lattice case of clip / reflect / toroidal) replayed on apply_bounds and, for the toroidal "
               "method, through GaussianMutation with forced noise (operator created with a small strength that is raised "
               "afterwards): the repaired genome and every point handed to the objective must lie in the box"),
    "nbc": ("NBC", "harness/replay_nbc.py",
            "NBC.tla tables: every population of 2..MaxN distinct points of a 1-D lattice with ranks 0..2 (ties), factors "
            "{1,3/2,2,3}, truncations {1/2,3/4,1}; 2-D grid populations with distinct ranks (threshold decided by integer "
            "square-root brackets, undecided rows skipped); every row replayed on NearestBetterClustering under embeddings "
            "(dimension 1-8, any axis, scales 1, 1/2, 1024, spacing 2^-30 around 1.0 and 2^20), permuted input orders, both directions"),
    "engines": ("Engines", "harness/replay_engines.py",
                "Engines.tla table: every pair (parents, offspring) of rank vectors with ties up to MaxPop for (mu+k) truncation "
                "(k=1,2), DE/SHADE one-to-one replacement (driven through DE.run / SHADE.run with a scripted objective), top-k for "
                "all k, tournament winner matrix, individual ordering; each row in both directions"),
    "r5s": ("R5S", "harness/replay_r5s.py",
            "R5S.tla table: every population of Size distinct lattice points with distinct ranks (all rank orders); the "
            "transcribed selection is the oracle; each row replayed on R5SSelection in both directions with rotated input order"),
    "voting": ("Voting", "harness/replay_voting.py",
               "Voting.tla table: every preference profile of NVoters rankings over NCand candidates, committee sizes 1..NCand-1; "
               "SNTV / Bloc / k-Borda / greedy Chamberlin-Courant as relations; replayed on the policies of multiwinner.py"),
    "stopconds": ("StopConds", "harness/replay_stopconds.py",
                  "StopConds.tla table: FitnessSteadiness on every history of 1..MaxMe metaepochs (1-2 generations, fitness 0..MaxFit) x n x "
                  "dev in {0, 1/2, 1} under exact concretisations; FitnessEvalLimitReached on every per-level evaluation vector (1-3 levels, "
                  "0..2) x strategy {equal, root, explicit weights, None} x limit 0..5; NoActiveNonrootDemes / AllChildrenStopped on every "
                  "set of <= 2 children (active, started_at, metaepochs) x tree metaepoch x k"),
    "sprout": ("Sprout", "harness/replay_sprout.py",
               "Sprout.tla tables: DemeLimit (all rank vectors with ties x limits), LevelLimit (pooled candidates of root/A/B x "
               "occupancy incl. more active demes than the limit x L), SkipSameSprout (equal / different seeds of the same / another "
               "parent), FarEnough and NBC_FarEnough (3-4-5 lattice, distance = threshold exactly, norms 1/2/inf, active/inactive "
               "siblings); every row replayed on the real filter objects with synthetic trees, both directions, exact scales"),
}


def _table_source(pid, name, tier):
    from .mod_table import table_stage
    module, replay, desc = TABLES[name]
    st = table_stage(name, module, tier, replay)
    viols, rep = _table_result(pid, st, module)
    info = {"module": module + ".tla", "cfg": st["tlc"]["cfg"], "distinct_states": st["tlc"]["distinct"],
            "generated": st["tlc"]["generated"], "table_rows": st.get("table_rows"), "replayed_calls": rep.get("evaluations", 0),
            "space": desc, "samples": rep.get("samples", [])[:2]}
    return st, viols, info


def _corpus_prop(pid, need, with_model=True, extra_assume=(), tables=(), minimize=False, runapi=False):
    def fn(tier: str) -> PropResult:
        cs, v1 = _corpus_violations(pid, tier)
        mz = None
        if minimize:
            from .mod_minimize import minimize_violations
            mz, vm = minimize_violations(pid, tier)
            v1 = v1 + vm
        ra = None
        vac_ra = []
        if runapi:
            from .mod_runapi import runapi_violations
            ra, vr, vac_ra = runapi_violations(pid, tier)
            v1 = v1 + vr
        ms, v2 = _model_violations(pid, tier) if with_model else (None, [])
        vac = _need(cs["stats"], need) + vac_ra
        if ms and ms["untaken_actions"]:
            vac += ["model action never taken: " + a for a in ms["untaken_actions"]]
        if ms:
            vac += ms.get("unreachable_witnesses", [])
        cov = _corpus_cov(cs, ms, pid)
        if mz is not None:
            cov["minimize_api"] = {"module": "MinimizeAPI.tla", "states": mz["states"], **mz["stats"], "sample": mz["sample"]}
            cov["states"] += mz["states"]
            cov["transitions"] += mz["states"]
            cov["traces_validated_against_impl"] += mz["stats"]["runs"]
        if ra is not None:
            cov["run_api"] = {"module": "RunAPI.tla", "states": ra["states"], **ra["stats"], "sample": ra["sample"]}
            cov["states"] += ra["states"]
            cov["transitions"] += ra["states"]
            cov["traces_validated_against_impl"] += ra["stats"]["runs"]
        v3 = []
        for t in tables:
            st, vt, info = _table_source(pid, t, tier)
            v3 += vt
            cov.setdefault("function_tables", {})[t] = info
            cov["states"] += info["distinct_states"]
            cov["transitions"] += info["generated"]
            cov["traces_validated_against_impl"] += info["table_rows"] or 0
        return PropResult(v1 + v2 + v3, cov, ASSUME_TRACE + list(extra_assume), vacuity=vac)
    REGISTRY[pid] = fn
    return fn


_corpus_prop("C01", ["objective_calls", "generations_recorded", "rounds_with_sprouts", "engine:LOCAL", "engine:CMA",
                     "engine:DE", "engine:SHADE", "engine:SEA", "engine:LHS", "engine:SOBOL"], with_model=False, minimize=True, runapi=True,
             tables=("bounds",))
_corpus_prop("C02", ["generations_recorded", "engine:LOCAL", "engine:CMA", "engine:DE", "snapshots_after_refusal"],
             with_model=False, minimize=True, runapi=True)
_corpus_prop("C03", ["ev:gsc", "engine:LOCAL", "gsc:SingularEvalLimit", "gsc:WeightedEvalLimit"], minimize=True, runapi=True)
_corpus_prop("C04", ["generations_recorded", "maximize", "minimize"], with_model=False, minimize=True, runapi=True)
_corpus_prop("C05", ["gsc_first_true_at:run", "gsc_first_true_at:step", "gsc_first_true_at:deme",
                     "gsc_true_with_demes_still_queued", "gsc:MetaepochLimit", "gsc:SingularEvalLimit",
                     "gsc:WeightedEvalLimit", "gsc:RootStopped", "gsc:AllStopped", "gsc:NoActiveNonroot", "gsc:Scripted"], minimize=True, runapi=True)
_corpus_prop("C06", ["lsc_true", "ev:lsc", "rounds_with_sprouts", "hibernation_on", "hibernation_off"])
_corpus_prop("C07", ["rounds_with_sprouts", "rounds_with_several_parents", "levels=3", "levels=1", "custom_deme_class"], runapi=True)
_c08_base = _corpus_prop("C08", ["rounds_with_sprouts", "rounds_where_filters_removed", "rounds_with_several_parents", "lsc_true"],
                         tables=("sprout",), runapi=True)


@prop("C08")
def c08(tier: str) -> PropResult:
    from .mod_apalache import levellimit_inductive
    res = _c08_base(tier)
    ap = levellimit_inductive(tier)
    res.coverage["unbounded_L_inductive_invariant"] = ap
    if ap.get("available") and (ap["base"] != "NoError" or ap["step"] != "NoError"):
        res.violations.append(Violation("C08", "model:LevelLimitInd.IndInv", "inductive invariant of the counter abstraction fails", ap))
    return res
_corpus_prop("C09", ["far_atoms", "rounds_with_sprouts"], with_model=False, tables=("sprout",))
_corpus_prop("C10", ["rounds_with_sprouts", "rounds_where_filters_removed", "rounds_with_several_parents", "maximize"],
             with_model=False, tables=("sprout",))
_corpus_prop("C11", ["generations_recorded", "engine:SEA", "engine:DE", "engine:SHADE", "engine:CMA", "engine:MWEA"],
             with_model=False)
_corpus_prop("C12", ["generations_recorded", "engine:SEA", "engine:DE", "engine:SHADE", "maximize"], with_model=False,
             tables=("engines",))
_corpus_prop("C19", ["dumps", "dumps_with_live_cma", "dumps_with_hibernating_deme", "loaded_continuations",
                     "dump_at_mc=0", "dump_at_mc=1", "dump_at_mc=2"], with_model=False,
             extra_assume=("the continuation of the restored tree is required to be a valid HMS behaviour, not to equal the live "
                           "continuation (false for CMA demes although nothing is wrong: DESIGN.md 4/C19)",))
_c20_base = _corpus_prop("C20", ["reports", "reports_best_is_zero", "reports_with_fresh_deme", "reports_with_hibernating_deme",
                                 "reports_with_stopped_deme"], with_model=False,
                         extra_assume=("report text is parsed by the harness (regular layout of format_deme); exceptions raised by query "
                                       "accessors other than summary()/tree() are recorded as their answer, not flagged",
                                       "look pairs: the dense run reads every accessor at every metaepoch boundary, the sparse runs "
                                       "only at every 2nd / 3rd / 4th; equality of the answers at common boundaries relies on seeded "
                                       "runs being reproducible (C14)"))


@prop("C20")
def c20(tier: str) -> PropResult:
    """+ "looking at a tree does not change it": the answers of all accessors at a boundary must not depend on whether
    the tree was looked at at earlier boundaries (PairTrace.tla, kind "look")"""
    from .mod_pairs import pairs_stage
    res = _c20_base(tier)
    ps = pairs_stage(tier)
    res.violations += _pair_violations("C20", "look", "C20_LookingDoesNotChange", ps)
    res.coverage["look_pairs"] = {k: v for k, v in ps["stats"].items() if k.startswith("look")}
    res.coverage["traces_validated_against_impl"] += 2 * ps["stats"].get("look_pairs", 0)
    res.vacuity += [k for k in ("look_pairs", "look_runs_with_hibernation", "look_runs_where_a_deme_woke")
                    if ps["stats"].get(k, 0) == 0]
    return res
_corpus_prop("C18", ["deme_snapshots_hibernating", "hibernation_on", "hibernation_off", "levels=3", "rounds_empty"])


# ----------------------------------------------------------------------------- C16
@prop("C16")
def c16(tier: str) -> PropResult:
    from .mod_table import table_stage
    st = table_stage("problem", "Problem", tier, "harness/replay_problem.py")
    viols, rep = _table_result("C16", st, "Problem")
    cov = {
        "states": st["tlc"]["distinct"], "transitions": st["tlc"]["generated"],
        "traces_validated_against_impl": rep.get("distinct", 0) * 2,
        "samples": rep["samples"] or [{"note": "no sample"}],
        "evaluations": rep["evaluations"], "distinct_nontrivial": rep.get("distinct", 0),
        "rule": "every wrapper stack up to MaxDepth over {count, stats, precision, cutoff(0..MaxCut)} x every call "
                "sequence entering at the top, plus - for stacks of up to MaxDirectDepth layers - every sequence of DirectCalls "
                "(class, entry layer) pairs with a call entering BELOW the top (a shared inner wrapper called directly); "
                "top-entry rows: every "
                "sequence of MaxCalls value classes {optimum, exactly-at-eps, outside}; each (stack, sequence) is replayed "
                "on real wrapper objects in both directions and the projected state (returned value, every layer's "
                "n_evaluations, ETA, hit_precision, base call count) is compared after every call",
        "exhaustive": True,
        "model": {"module": "Problem.tla", "cfg": st["tlc"]["cfg"], "table_rows": st.get("table_rows"),
                  "laws": ["Transparent", "WorstOnlyFromCutoff", "CountLaw", "BaseLaw", "BudgetHard", "CutoffPrefix",
                           "PrecisionFirstHit", "Sticky", "CountersNeverDecrease"],
                  "action_coverage": st["tlc"]["coverage"]},
    }
    return PropResult(viols, cov, [
        "objective values are abstracted to three classes w.r.t. the precision wrapper (optimum, exactly at eps, outside); "
        "the replay concretises them with opt=1.0, eps=0.25 (exactly representable boundary)",
        "wrappers are the five classes of pyhms/core/problem.py; user-defined wrappers are out of scope",
    ])


# ----------------------------------------------------------------------------- C15
@prop("C15")
def c15(tier: str) -> PropResult:
    st, viols, info = _table_source("C15", "nbc", tier)
    rep = st.get("replay", {})
    cov = {"states": info["distinct_states"], "transitions": info["generated"],
           "traces_validated_against_impl": info["table_rows"] or 0,
           "samples": info["samples"] or [{"note": "no sample"}],
           "evaluations": rep.get("evaluations", 0), "distinct_nontrivial": rep.get("nontrivial", 0),
           "rule": info["space"] + "; non-trivial = populations of at least 3 individuals", "exhaustive": True,
           "model": {"module": "NBC.tla", "cfg": info["cfg"],
                     "laws": ["BestIsSeed", "SeedsAreKept", "ScaleTranslateInvariant", "MirrorInvariant", "FactorMonotone"]}}
    from .mod_table import nbc_batch_stage
    nb = nbc_batch_stage(tier)
    for name in nb.get("model_violations", []):
        viols.append(Violation("C15", f"model:{name}", f"NBCBatch.tla law {name} violated on the definition", {}))
    brep = nb.get("replay", {"violations": [], "evaluations": 0})
    viols += [v for v in _viol("C15", brep["violations"]) if v.clause.startswith("C15_")]
    cov["larger_populations"] = {"module": "NBCBatch.tla", "cases": nb.get("cases"), "sizes": brep.get("sizes"),
                                 "replayed_calls": brep.get("evaluations"), "sample": brep.get("sample"),
                                 "rule": "generated populations of 8-60 (the last sixth: 64-128, few populous clusters) individuals on a line (uniform / clustered / dense, distinct ranks or tie "
                                         "groups away from the best and the cut), expected seeds computed by TLC, replayed under Pythagorean "
                                         "embeddings (all distances exact), 3 images per case, permuted order, both directions"}
    cov["traces_validated_against_impl"] += nb.get("cases") or 0
    cov["evaluations"] += brep.get("evaluations", 0)
    return PropResult(viols, cov, [
        "exact scales only (powers of two), so the oracle of TLC is exact; rows where the threshold test is an exact equality "
        "are compared only when the float arithmetic is exact (m in {1,2,4}, dyadic factor), otherwise they are run for crashes only",
        "populations up to MaxN on a lattice; sizes up to 128 and arbitrary real coordinates are not enumerated",
    ])


# ----------------------------------------------------------------------------- C13 / C14 (pairs)
def _pair_violations(pid, kind, clause, ps):
    viols = []
    for p in ps["pairs"]:
        if p["kind"] != kind:
            continue
        if p["diff"] or p["lena"] != p["lenb"]:
            where = f"first differing event {p['diff']} ({p['what']})" if p["diff"] else f"lengths {p['lena']} vs {p['lenb']}"
            viols.append(Violation(pid, clause, f"{clause} pair={p['name']} {where}", {"pair": p}))
    return viols


@prop("C13")
def c13(tier: str) -> PropResult:
    from .mod_pairs import pairs_stage
    ps = pairs_stage(tier)
    viols = _pair_violations("C13", "twin", "C13_TwinEqual", ps)
    cov = {"states": ps["pair_states"] + ps["trace_states"], "transitions": ps["pair_states"] + ps["trace_states"],
           "traces_validated_against_impl": 2 * ps["stats"]["twin_pairs"], "samples": [ps["sample"]],
           "evaluations": ps["stats"]["twin_pairs"], "distinct_nontrivial": ps["stats"]["twin_with_sprouts"],
           "rule": "whole-run form: one evaluation = one twin pair (seeded run on (f, maximize) and on (-f, minimize)) over index-stable "
                   "engine mixes (DE, DE+dither, SHADE, CMA fixed/warm/set_stds, L-BFGS-B, LHS, Sobol), compared event by event by "
                   "PairTrace.tla; non-trivial = the pair sprouted at least one deme. Decision form: function tables below",
           "pairs": ps["stats"], "function_tables": {}}
    vac = [k for k in ("twin_with_cma", "twin_with_local", "twin_with_sprouts") if ps["stats"].get(k, 0) == 0]
    for t in ("engines", "sprout", "nbc"):
        st, vt, info = _table_source("C13", t, tier)
        viols += vt
        cov["function_tables"][t] = info
        cov["states"] += info["distinct_states"]
        cov["transitions"] += info["generated"]
        cov["traces_validated_against_impl"] += info["table_rows"] or 0
    st, vt, info = _table_source("C13", "r5s", tier)
    viols += vt
    cov["function_tables"]["r5s"] = info
    return PropResult(viols, cov, [
        "twin equality is decided on genome ids (first-seen order), dense goodness ranks and digests of genomes + canonical goodness",
        "SEA-family levels, MWEA and FitnessSteadiness are excluded from the whole-run form exactly as the property excludes them",
    ], vacuity=vac)


@prop("C14")
def c14(tier: str) -> PropResult:
    from .mod_pairs import pairs_stage
    ps = pairs_stage(tier)
    viols = _pair_violations("C14", "repeat", "C14_RepeatEqual", ps)
    from .mod_minimize import minimize_violations
    mz, vm = minimize_violations("C14", tier)
    viols += vm
    n = ps["stats"]["repeat_pairs"] + ps["stats"]["subprocess_pairs"]
    cov = {"states": ps["pair_states"] + ps["trace_states"], "transitions": ps["pair_states"] + ps["trace_states"],
           "traces_validated_against_impl": 2 * n, "samples": [ps["sample"]],
           "evaluations": n, "distinct_nontrivial": n,
           "rule": "one evaluation = one pair of runs of a seeded configuration of the full engine matrix: in-process vs in-process "
                   "after scrambling the global random / numpy generators, and vs a fresh subprocess with another PYTHONHASHSEED; "
                   "PairTrace.tla requires the two event streams to be equal",
           "pairs": ps["stats"],
           "minimize_api": {"module": "MinimizeAPI.tla", "groups": mz["stats"]["groups"], "runs": mz["stats"]["runs"],
                            "clause": "C14_MinimizeRepeat (runs of minimize(seed=s) with equal arguments are identical)"}}
    vac = [k for k in ("subprocess_pairs", "repeat_pairs") if ps["stats"].get(k, 0) == 0]
    return PropResult(viols, cov, [
        "the specification's contribution is thin here (equality of behaviours); the quantifier is carried by the corpus",
        "minimize(seed=...) repeats are covered by the MinimizeAPI stage (C03/C04)",
    ], vacuity=vac)


# ----------------------------------------------------------------------------- beyond the list
def growth(tier: str) -> int:
    """Specification modules that cover behaviour outside the 20 listed properties.  Findings are printed as
    OBSERVATION lines and never fail (no property is attached)."""
    from .mod_table import table_stage
    module, replay, desc = TABLES["voting"]
    st = table_stage("voting", module, tier, replay)
    rep = st.get("replay", {})
    print(f"Voting.tla: {st['tlc']['distinct']} states, {st.get('table_rows')} rows, {rep.get('evaluations')} policy calls")
    by = {}
    for v in rep.get("violations", []):
        by.setdefault(v["clause"], []).append(v)
    for clause, vs in sorted(by.items()):
        print(f"OBSERVATION (no listed property): {clause}: {len(vs)} rows disagree with the definition, e.g. {vs[0]['signature']} -> {vs[0]['detail']}")
    if not by:
        print("Voting rules conform to Voting.tla on every row")
    module, replay, desc = TABLES["stopconds"]
    st = table_stage("stopconds", module, tier, replay)
    rep = st.get("replay", {})
    print(f"StopConds.tla: {st['tlc']['distinct']} states, {st.get('table_rows')} rows, {rep.get('evaluations')} stop-condition calls, "
          f"laws violated on the definition: {st.get('model_violations', [])}")
    by = {}
    for v in rep.get("violations", []):
        by.setdefault(v["clause"], []).append(v)
    for clause, vs in sorted(by.items()):
        print(f"OBSERVATION (no listed property): {clause}: {len(vs)} rows disagree with the definition, e.g. {vs[0]['signature']} -> {vs[0]['detail']}")
    if not by:
        print("Shipped stop conditions conform to StopConds.tla on every row")
    from .mod_table import shade_stage
    st = shade_stage(tier)
    rec = st["recorded"]
    print(f"Shade.tla: {st['tlc']['distinct']} states, invariants violated: {st['tlc']['violated']}, witnesses reached: {st['witnesses_reached']}; "
          f"ShadeTrace.tla: {rec['traces']} recorded SHADE objects, {rec['events']} generations ({rec['without_success']} without a success, "
          f"{rec['archive_cut']} with the archive cut back), {st['trace_states']} states")
    from .mod_apalache import shade_inductive
    ap = shade_inductive(tier)
    print("ShadeInd.tla (Apalache, unbounded memory / population size): " +
          (f"IndInv initial: {ap['base']}, inductive step: {ap['step']}" if ap.get("available") else "apalache-mc not available"))
    for clause, v in st["clauses_violated"].items():
        print(f"OBSERVATION (no listed property): {clause}: {v['n']} recorded generations disagree with Shade.tla, first: {v['first']}")
    if not st["clauses_violated"]:
        print("Recorded SHADE generations conform to Shade.tla")
    return 0
