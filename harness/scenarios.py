"""Spec -> code: TLC behaviours of the design model (HMSModel.tla) become scenario scripts that drive the real
library through its public API with scripted user-supplied components (global / local stop conditions,
candidate generator) and the real engines and filters."""
from __future__ import annotations

import json
import re
from pathlib import Path

from .common import MachineryError, run_tlc, seed

_SCRIPT = re.compile(r'^<<"SCRIPT", "(.*)">>$')

REAL = {"SEA": {"engine": "SEA", "pop": 5}, "DE": {"engine": "DE", "pop": 5, "crossover": 1.0},
        "SHADE": {"engine": "SHADE", "pop": 5, "mem": 2}, "CMA": {"engine": "CMA"}, "LOCAL": {"engine": "LOCAL", "maxiter": 3},
        "LHS": {"engine": "LHS", "pop": 4}, "SOBOL": {"engine": "SOBOL", "pop": 4}}


def parse_scripts(out: str) -> list[dict]:
    res = []
    for line in out.splitlines():
        m = _SCRIPT.match(line.strip())
        if m:
            res.append(json.loads(m.group(1).replace('\\"', '"').replace("\\\\", "\\")))
    return res


def script_to_spec(sc: dict, idx: int, variant: int) -> dict:
    cfg = sc["cfg"]
    levels = []
    for li, lv in enumerate(cfg["levels"]):
        l = dict(REAL[lv["eng"]])
        if lv["eng"] in ("SEA", "DE", "SHADE", "CMA"):
            l["gens"] = lv["gens"]
        l["lsc"] = {"kind": lv["lsc"], "n": lv.get("lscn", 0)}
        levels.append(l)
    gsc, lsc, offers = [], [], []
    for a in sc["script"]:
        if a["a"] == "gsc":
            gsc.append(bool(a["v"]))
        elif a["a"] == "lsc":
            if a["v"]:
                lsc.append([a["d"], int(a["m"]), int(a["lvl"])])
        elif a["a"] == "round":
            offers.append({p: int(n) for p, n in a["offers"]})
    boxes = ["sym", "asym", "decimal", "unit"]
    fns = ["multi", "funnels", "sphere", "plateau"]
    spec = {"name": f"scn{idx}", "seed": 1000 + idx, "dim": 2, "box": boxes[(idx + variant) % len(boxes)],
            "fn": fns[(idx // 2 + variant) % len(fns)], "maximize": bool((idx + variant) % 3 == 0),
            "levels": levels, "hibernation": bool(cfg["hib"]),
            "gsc": {"kind": "Scripted"},
            "sprout": {"kind": "scripted", "limit": (None if cfg["limit"] < 0 else cfg["limit"])},
            "script": {"gsc": gsc, "lsc": lsc, "offers": offers},
            "expect": sc["final"], "model_cfg": cfg["name"], "max_consults": 400}
    if idx % 3 == 0:
        spec["reports"] = True
    if idx % 4 == 1:
        spec["dump_at"] = (idx // 4) % 3      # snapshot point enumerated with the scenario
        if idx % 8 == 1:
            spec["objective_form"] = "lambda"
    return spec


def scenario_specs(tier: str, workdir: Path) -> list[dict]:
    d = workdir / "scripts"
    # (1) one script per distinct terminal state of the bounded model (breadth-first: shortest behaviour)
    r = run_tlc("MC_HMS", "HMS_scripts.cfg", d, workers=1, deadlock=True)
    if not r.ok:
        raise MachineryError("script generation failed:\n" + "\n".join(r.out.splitlines()[-30:]))
    scripts = parse_scripts(r.out)
    # (2) random deep behaviours of the same model
    n_sim = 150 if tier == "quick" else 2000
    r2 = run_tlc("MC_HMS", "HMS_scripts_sim.cfg", d, workers=1, deadlock=True,
                 simulate=f"num={n_sim}", depth=120, tlc_seed=seed() % 100000)
    sims = parse_scripts(r2.out)
    if not scripts or not sims:
        raise MachineryError("no scenario scripts were generated")
    cap = 250 if tier == "quick" else 4000
    # de-duplicate by content; spread over configurations
    seen, uniq = set(), []
    for sc in scripts + sims:
        k = json.dumps([sc["cfg"]["name"], sc["script"]], sort_keys=True)
        if k not in seen:
            seen.add(k)
            uniq.append(sc)
    uniq.sort(key=lambda s: (len(s["script"]), s["cfg"]["name"]))
    if len(uniq) > cap:
        step = len(uniq) / cap
        uniq = [uniq[int(i * step)] for i in range(cap)]
    (d / "scripts.json").write_text(json.dumps({"terminal_scripts": len(scripts), "simulated": len(sims),
                                                "used": len(uniq), "states": r.distinct}))
    return [script_to_spec(sc, i, 0) for i, sc in enumerate(uniq)]
