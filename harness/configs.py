"""RunSpec (a JSON-able dict) -> real pyhms TreeConfig wired with recorder wrappers.

A RunSpec fully determines a run: objective, box, direction, engines, stop conditions, sprout mechanism, options,
seed and (for TLC-generated scenarios) the script of scripted components.
"""
from __future__ import annotations

import numpy as np

from pyhms.config import (CMALevelConfig, DELevelConfig, EALevelConfig, LHSLevelConfig, LocalOptimizationConfig,
                          SHADELevelConfig, SobolLevelConfig, TreeConfig)
from pyhms.core.problem import (EvalCountingProblem, EvalCutoffProblem, FunctionProblem, PrecisionCutoffProblem,
                                ProblemWrapper, StatsGatheringProblem)
from pyhms.config import BaseLevelConfig
from pyhms.core.individual import Individual
from pyhms.demes.abstract_deme import AbstractDeme
from pyhms.demes.single_pop_eas.common import VariationalOperator, apply_bounds
from pyhms.demes.single_pop_eas.sea import (MWEA, SEA, BaseSEA, GAStyleSEA, GaussianMutation, SEAWithAdaptiveMutation,
                                            SEAWithCrossover, TournamentSelection)
from pyhms.sprout.sprout_candidates import DemeCandidates, DemeFeatures
from pyhms.sprout.sprout_filters import DemeLimit, FarEnough, LevelLimit, NBC_FarEnough, SkipSameSprout
from pyhms.sprout.sprout_generators import (BestPerDeme, NBC_Generator, NBCGeneratorWithLocalMethod,
                                            SproutCandidatesGenerator)
from pyhms.sprout.sprout_mechanisms import SproutMechanism, get_NBC_sprout, get_simple_sprout
from pyhms.stop_conditions import (AllChildrenStopped, AllStopped, DontRun, DontStop, FitnessEvalLimitReached,
                                   FitnessSteadiness, GlobalStopCondition, LocalStopCondition, MetaepochLimit,
                                   NoActiveNonrootDemes, RootStopped, SingularProblemEvalLimitReached,
                                   SingularProblemPrecisionReached, WeightingStrategy)

from .recorder import LevelObjective, RecGSC, RecLSC, Recorder, RecSprout

BOXES = {
    "sym": lambda d: [(-5.0, 5.0)] * d,
    "asym": lambda d: [(-1.0, 7.0), (2.0, 3.0), (-30.0, -10.0), (0.0, 0.5), (100.0, 101.0), (-0.25, 0.75)][:d],
    "decimal": lambda d: [(-0.1, 0.2)] * d,
    "tiny": lambda d: [(0.0, 1e-9)] * d,
    "huge": lambda d: [(-1e9, 1e9)] * d,
    "unit": lambda d: [(0.0, 1.0)] * d,
    # faces that are no short decimal numbers (and differ in every dimension)
    "thirds": lambda d: [(-2.0 / 3.0, 1.0 / 3.0), (-1.0 / 7.0, 22.0 / 7.0), (2.0 ** 0.5, 3.0 ** 0.5), (-1e-3 / 3.0, 1e-3 / 7.0),
                         (1e5 / 3.0, 1e5 / 3.0 + 1.0), (-1.0 / 9.0, 1.0 / 9.0)][:d],
}

class CreepInPlace(VariationalOperator):
    """A user-written operator that works on the population it is given (update_genome + evaluate) and returns it."""

    def __init__(self, step, bounds):
        self.step = step
        self.bounds = bounds

    def __call__(self, population):
        moved = population.genomes + np.random.uniform(-self.step, self.step, size=population.genomes.shape)
        population.update_genome(apply_bounds(moved, self.bounds, "clip"))
        population.evaluate()
        return population


class MemeticSEA(BaseSEA):
    """A user-defined engine plugged in through the public `ea_class` extension point of EALevelConfig: an SEA that
    additionally probes two points between its best offspring and two others, evaluating them through the problem it
    was created with (the deme's own counting problem, ea_deme.py:17-20)."""

    def __init__(self, pipeline, k_elites, problem):
        super().__init__(pipeline, k_elites)
        self.problem = problem

    @classmethod
    def create(cls, **kwargs):
        problem = kwargs.get("problem")
        std = kwargs.get("mutation_std", 1.0)
        # (every point the engine evaluates either survives or is worse than a survivor: C04's "best ever observed")
        return cls([CreepInPlace(std, problem.bounds)], kwargs.get("k_elites", 1), problem)

    def run(self, parents, **kwargs):
        new = super().run(parents, **kwargs)
        order = sorted(range(len(new)), key=lambda i: new[i], reverse=True)        # best first (Individual ordering)
        best = new[order[0]]
        for j in order[1:3]:
            x = 0.5 * (best.genome + new[j].genome)
            cand = Individual(x, self.problem, self.problem.evaluate(x))
            worst = min(range(len(new)), key=lambda i: new[i])
            if cand > new[worst]:
                new[worst] = cand
        return new


class BreedMore(VariationalOperator):
    """A user-written operator that breeds lambda = 2 mu children: every parent twice, the copies then mutated."""

    def __init__(self, std, bounds):
        self.mut = GaussianMutation(std=std, bounds=bounds, probability=1.0)

    def __call__(self, population):
        from pyhms.core.population import Population
        doubled = Population(np.concatenate((population.genomes, population.genomes)),
                             np.concatenate((population.fitnesses, population.fitnesses)), population.problem)
        return self.mut(doubled)


class MuPlusLambdaSEA(BaseSEA):
    """A user-composed (mu + lambda) engine that relies on the inherited run() and select_new_population(): its pipeline
    returns twice as many children as it was given parents."""

    @classmethod
    def create(cls, **kwargs):
        problem = kwargs.get("problem")
        return cls([TournamentSelection(), BreedMore(kwargs.get("mutation_std", 1.0), problem.bounds)], kwargs.get("k_elites", 1))


class CloneES(BaseSEA):
    """A user-written (mu + lambda) evolution strategy built on the public Individual.clone(): every child is a clone of a
    randomly chosen parent (clones share the parent's uuid), moved by Gaussian noise and evaluated; the best parent and the
    children compete for the mu places.  It never loses its best (C04 / C12 apply as for the shipped elitist engines)."""

    def __init__(self, std, bounds):
        super().__init__([], 1)
        self.std, self.bounds = std, bounds

    @classmethod
    def create(cls, **kwargs):
        return cls(kwargs.get("mutation_std", 1.0), kwargs.get("problem").bounds)

    def run(self, parents, **kwargs):
        mu = len(parents)
        kids = []
        for _ in range(mu):
            child = parents[np.random.randint(mu)].clone()
            child.genome = apply_bounds(child.genome + np.random.normal(0.0, self.std, size=child.genome.shape), self.bounds, "reflect")
            child.evaluate()
            kids.append(child)
        elite = max(parents)
        return sorted([elite] + kids, reverse=True)[:mu]


class DocStyleConfig(BaseLevelConfig):
    """docs/custom_demes.rst, step 1."""

    def __init__(self, problem, lsc, pop_size):
        super().__init__(problem, lsc)
        self.pop_size = pop_size


class DocStyleDeme(AbstractDeme):
    """docs/custom_demes.rst, step 2: a random-search deme written the documented way - it subclasses AbstractDeme,
    appends its populations to self._history itself and relies on the accessors of the base class."""

    def __init__(self, deme_init_args):
        super().__init__(deme_init_args)
        config = deme_init_args.config
        self._pop_size = config.pop_size
        self.lower_bounds = config.bounds[:, 0]
        self.upper_bounds = config.bounds[:, 1]
        self._history.append([self._run_step()])

    def run_metaepoch(self, tree) -> None:
        self._history.append([self._run_step()])
        if tree._gsc(tree) or self._lsc(self):
            self._active = False

    def _run_step(self):
        genomes = np.random.uniform(self.lower_bounds, self.upper_bounds, size=(self._pop_size, len(self.lower_bounds)))
        population = [Individual(genome, problem=self._problem) for genome in genomes]
        Individual.evaluate_population(population)
        return population


class DocStyleDemeB(DocStyleDeme):
    """another deme class registered for DocStyleConfig by a second tree of the same process"""


SEA_CLASSES = {"SEA": SEA, "SEAX": SEAWithCrossover, "GA": GAStyleSEA, "ADAPT": SEAWithAdaptiveMutation, "MWEA": MWEA,
               "MEMETIC": MemeticSEA, "MPL": MuPlusLambdaSEA, "CLONE": CloneES}
POP_ENGINES = set(SEA_CLASSES) | {"DE", "DEd", "SHADE"}


class CustomLevelConfig(EALevelConfig):
    """A user-defined level configuration class (C07: custom deme classes registered through the config)."""


from pyhms.demes.ea_deme import EADeme  # noqa: E402


class CustomDeme(EADeme):
    """A user-defined deme class registered through TreeConfig.config_class_to_deme_class."""


class CustomDemeB(EADeme):
    """another user's deme class for the same configuration class (a second tree in the process maps it differently)"""


class RefusalProbe(ProblemWrapper):
    """Harness-owned wrapper placed directly above an EvalCutoffProblem: counts evaluations that did not
    reach the recorder (i.e. were refused by the cutoff)."""

    def __init__(self, inner, rec: Recorder, level: int):
        super().__init__(inner)
        self._rec = rec
        self._level = level

    def evaluate(self, phenome, *a, **k):
        n0 = self._rec.level_calls.get(self._level, 0)
        r = self._inner.evaluate(phenome, *a, **k)
        if self._rec.level_calls.get(self._level, 0) == n0:
            self._rec.refused += 1
        return r


class TargetOrLimit(GlobalStopCondition):
    """A user-defined global condition of the usual kind: stop when the best fitness found so far is good enough, or
    after a number of metaepochs.  It reads tree.best_individual every time it is consulted - also in the middle of a
    metaepoch, after every generation of every deme."""

    def __init__(self, target, limit, maximize):
        self.target, self.limit, self.maximize = target, limit, maximize

    def __call__(self, tree) -> bool:
        best = tree.best_individual
        good = best is not None and (best.fitness >= self.target if self.maximize else best.fitness <= self.target)
        return bool(good) or tree.metaepoch_count >= self.limit


class LimitOrTarget(MetaepochLimit):
    """The same user condition written as an extension of the shipped MetaepochLimit: the limit of the base class, or the
    target reached."""

    def __init__(self, target, limit, maximize):
        super().__init__(limit)
        self.target, self.maximize = target, maximize

    def __call__(self, tree) -> bool:
        best = tree.best_individual
        good = best is not None and (best.fitness >= self.target if self.maximize else best.fitness <= self.target)
        return bool(good) or super().__call__(tree)


class DemeTargetOrLimit(LocalStopCondition):
    """A user-defined local condition: the deme is good enough (its current best reaches a target) or has run long enough.
    It reads the deme's accessors (current best, overall best, centroid, evaluation count) when it is consulted."""

    def __init__(self, target, limit, maximize):
        self.target, self.limit, self.maximize = target, limit, maximize

    def __call__(self, deme) -> bool:
        cur, best = deme.best_current_individual, deme.best_individual
        _ = (deme.centroid, deme.n_evaluations)
        good = cur is not None and best is not None and (cur.fitness >= self.target if self.maximize else cur.fitness <= self.target)
        return bool(good) or deme.metaepoch_count >= self.limit


class DepthFirstBest(SproutCandidatesGenerator):
    """A user-written generator: the current best of every active non-leaf deme, like BestPerDeme, but handed over in
    depth-first order (parent, then its subtree) instead of level by level."""

    def __call__(self, tree):
        out = {}

        def walk(deme):
            if deme.level < tree.height - 1:
                if deme.is_active:
                    out[deme] = DemeCandidates(individuals=[deme.best_current_individual], features=DemeFeatures(nbc_mean_distance=None))
                for c in deme.children:
                    walk(c)
        walk(tree.root)
        return out


# ------------------------------------------------------------------ scripted components
class ScriptedGSC(GlobalStopCondition):
    """k-th consult -> script[k]; latches TRUE once it returned TRUE; TRUE when the script is exhausted."""

    def __init__(self, verdicts):
        self.verdicts = list(verdicts)
        self.k = 0
        self.latched = False

    def __call__(self, tree) -> bool:
        if self.latched:
            return True
        v = self.verdicts[self.k] if self.k < len(self.verdicts) else True
        self.k += 1
        if v:
            self.latched = True
        return bool(v)


class ScriptedLSC(LocalStopCondition):
    """(deme id, its metaepoch count) in stops -> TRUE."""

    def __init__(self, stops):
        self.stops = {(s[0], int(s[1])) for s in stops}

    def __call__(self, deme) -> bool:
        return (deme.id, int(deme.metaepoch_count)) in self.stops


class ScriptedGenerator(SproutCandidatesGenerator):
    """Round r (1-based, counted per call): parent id -> number of candidates offered; the candidates are the
    best n individuals of the parent's current population (only active non-leaf parents are offered)."""

    def __init__(self, offers):
        self.offers = offers          # list (per round) of {parent_id: n}
        self.round = 0

    def __call__(self, tree):
        self.round += 1
        off = self.offers[self.round - 1] if self.round - 1 < len(self.offers) else {}
        out = {}
        for level in tree.levels[:-1]:
            for deme in level:
                if deme.is_active:
                    n = int(off.get(deme.id, 0))
                    cands = sorted(deme.current_population, reverse=True)
                    # distinct genomes only
                    seen, pick = set(), []
                    for i in (cands if n > 0 else []):
                        k = i.genome.tobytes()
                        if k not in seen:
                            seen.add(k)
                            pick.append(i)
                        if len(pick) == n:
                            break
                    out[deme] = DemeCandidates(individuals=pick, features=DemeFeatures(nbc_mean_distance=0.0))
        return out


# ------------------------------------------------------------------ builders
def _lsc(spec, rec, level, script):
    k = spec.get("kind", "DontStop")
    if k == "DontStop":
        inner = DontStop()
    elif k == "DontRun":
        inner = DontRun()
    elif k == "MetaepochLimit":
        inner = MetaepochLimit(int(spec["n"]))
    elif k == "AllChildrenStopped":
        inner = AllChildrenStopped()
    elif k == "FitnessSteadiness":
        inner = FitnessSteadiness(float(spec.get("dev", 1e-3)), int(spec.get("n", 3)))
    elif k == "DemeTarget":
        t = float(spec.get("target", 0.05))
        inner = DemeTargetOrLimit(-t if rec.maximize else t, int(spec.get("n", 4)), rec.maximize)
    elif k == "Scripted":
        inner = ScriptedLSC([s for s in script.get("lsc", []) if s[2] == level] if script else [])
    else:
        raise ValueError(k)
    return RecLSC(rec, inner, level)


def _gsc(spec, rec, script, problems):
    k = spec["kind"]
    if k == "MetaepochLimit":
        inner = MetaepochLimit(int(spec["n"]))
    elif k == "DontRun":
        inner = DontRun()
    elif k == "SingularEvalLimit":
        inner = SingularProblemEvalLimitReached(int(spec["n"]))
    elif k == "WeightedEvalLimit":
        w = spec.get("w", "equal")
        w = WeightingStrategy.EQUAL if w == "equal" else WeightingStrategy.ROOT if w == "root" else list(w)
        inner = FitnessEvalLimitReached(int(spec["n"]), w)
    elif k == "RootStopped":
        inner = RootStopped()
    elif k == "AllStopped":
        inner = AllStopped()
    elif k == "NoActiveNonroot":
        inner = NoActiveNonrootDemes(int(spec["n"]))
    elif k == "PrecisionReached":
        inner = SingularProblemPrecisionReached(rec.precision)
    elif k == "Scripted":
        inner = ScriptedGSC(script["gsc"])
    elif k == "Target":
        t = float(spec.get("target", 0.02))
        cls = LimitOrTarget if spec.get("base") == "MetaepochLimit" else TargetOrLimit
        inner = cls(-t if rec.maximize else t, int(spec.get("n", 8)), rec.maximize)
    else:
        raise ValueError(k)
    return RecGSC(rec, inner)


def _range(bounds):
    b = np.asarray(bounds)
    return float(np.mean(b[:, 1] - b[:, 0]))


def _level(lv, problem, lsc, bounds, depth):
    e = lv["engine"]
    rng = _range(bounds)
    shrink = 1.0 / (3.0 ** depth)
    if "sstd_wide" in lv:          # initial sample of a sprouted deme as wide as the box itself (rejection sampling works hard)
        lv = dict(lv, sstd=float(lv["sstd_wide"]) / shrink)
    if e in SEA_CLASSES or e == "CUSTOM":
        kw = dict(ea_class=SEA_CLASSES.get(e, SEA), pop_size=int(lv.get("pop", 6)), problem=problem, lsc=lsc,
                  generations=int(lv.get("gens", 1)), mutation_std=float(lv.get("mstd", 0.15)) * rng * shrink,
                  sample_std_dev=float(lv.get("sstd", 0.1)) * rng * shrink)
        for k in ("p_mutation", "p_crossover", "k_elites", "election_group_size"):
            if k in lv:
                kw[k] = lv[k]
        if "mstep" in lv:
            kw["mutation_std_step"] = float(lv["mstep"]) * rng
        return CustomLevelConfig(**kw) if e == "CUSTOM" else EALevelConfig(**kw)
    if e in ("DE", "DEd"):
        return DELevelConfig(pop_size=int(lv.get("pop", 6)), problem=problem, lsc=lsc,
                             generations=int(lv.get("gens", 1)), dither=(e == "DEd"),
                             scaling=float(lv.get("scaling", 0.8)), crossover=float(lv.get("crossover", 0.9)),
                             sample_std_dev=float(lv.get("sstd", 0.1)) * rng * shrink)
    if e == "SHADE":
        return SHADELevelConfig(pop_size=int(lv.get("pop", 6)), problem=problem, lsc=lsc,
                                generations=int(lv.get("gens", 1)), memory_size=int(lv.get("mem", 4)),
                                sample_std_dev=float(lv.get("sstd", 0.1)) * rng * shrink)
    if e in ("CMA", "CMAw", "CMAs"):
        kw = dict(problem=problem, lsc=lsc, generations=int(lv.get("gens", 1)))
        if e == "CMA":
            kw["sigma0"] = float(lv.get("sigma0", 0.1)) * rng * shrink
        elif e == "CMAs":
            kw["set_stds"] = True
        return CMALevelConfig(**kw)
    if e == "LOCAL":
        kw = dict(problem=problem, lsc=lsc)
        if "maxiter" in lv:
            kw["maxiter"] = int(lv["maxiter"])
        return LocalOptimizationConfig(**kw)
    if e == "DOC":
        return DocStyleConfig(problem=problem, lsc=lsc, pop_size=int(lv.get("pop", 6)))
    if e == "LHS":
        return LHSLevelConfig(problem=problem, lsc=lsc, pop_size=int(lv.get("pop", 6)))
    if e == "SOBOL":
        return SobolLevelConfig(problem=problem, lsc=lsc, pop_size=int(lv.get("pop", 8)))
    raise ValueError(e)


def far_atoms(kind, params):
    """Atoms for C09: distance of every returned seed to the true (recomputed) centroid of every deme of the
    target level that the filter is configured to consider."""
    def atoms(rec, tree, ret, cents):
        far = []
        for parent, cands in ret.items():
            tl = parent.level + 1
            for i in cands.individuals:
                for did, (c, act, lvl) in cents.items():
                    if lvl != tl or c is None:
                        continue
                    if kind == "far":
                        considered = act
                        thr = params["min_distance"]
                    else:
                        considered = act or not params.get("check_only_active", False)
                        md = cands.features.nbc_mean_distance
                        thr = params["factor"] * (md if md is not None else 0.0)
                    if not considered:
                        continue
                    dist = float(np.linalg.norm(np.asarray(i.genome) - c, ord=params.get("ord", 2)))
                    # strictly farther than the threshold, with one part in 1e9 of slack for rounding
                    far.append([parent.id, rec.gid(i.genome), did, int(dist > thr * (1 - 1e-9))])
        return {"far": far}
    return atoms


def _sprout(spec, rec, bounds, script):
    k = spec["kind"]
    rng = _range(bounds)
    atoms = None
    if k == "simple":
        md = float(spec.get("far", 0.05)) * rng
        inner = get_simple_sprout(md, level_limit=int(spec.get("limit", 4)))
        atoms = far_atoms("far", {"min_distance": md, "ord": 2})
    elif k == "nbc":
        inner = get_NBC_sprout(gen_dist_factor=float(spec.get("gen", 3.0)), trunc_factor=float(spec.get("trunc", 0.7)),
                               fil_dist_factor=float(spec.get("fil", 3.0)), level_limit=int(spec.get("limit", 4)))
        atoms = far_atoms("nbc", {"factor": float(spec.get("fil", 3.0)), "check_only_active": False, "ord": 2})
    elif k == "nbc_local":
        inner = SproutMechanism(NBCGeneratorWithLocalMethod(float(spec.get("gen", 3.0)), float(spec.get("trunc", 0.7))),
                                [NBC_FarEnough(float(spec.get("fil", 3.0)), 2), DemeLimit(1)],
                                [LevelLimit(int(spec.get("limit", 4)))])
        atoms = far_atoms("nbc", {"factor": float(spec.get("fil", 3.0)), "check_only_active": False, "ord": 2})
    elif k == "scripted":
        dfil = [DemeLimit(int(spec["deme_limit"]))] if spec.get("deme_limit") else []
        tfil = []
        if spec.get("skip_same"):
            tfil.append(SkipSameSprout())
        if spec.get("limit") is not None:
            tfil.append(LevelLimit(int(spec["limit"])))
        inner = SproutMechanism(ScriptedGenerator(script["offers"]), dfil, tfil)
    elif k == "composed":
        gen = {"best": BestPerDeme, "dfs": DepthFirstBest,
               "nbc": lambda: NBC_Generator(float(spec.get("gen", 2.0)), float(spec.get("trunc", 1.0)))}[spec.get("generator", "best")]()
        dfil = []
        for f in spec.get("deme_filters", []):
            if f[0] == "far":
                md = float(f[1]) * rng
                dfil.append(FarEnough(md, int(f[2]) if len(f) > 2 else 2))
                atoms = far_atoms("far", {"min_distance": md, "ord": int(f[2]) if len(f) > 2 else 2})
            elif f[0] == "nbcfar":
                dfil.append(NBC_FarEnough(float(f[1]), 2, bool(f[2]) if len(f) > 2 else False))
                atoms = far_atoms("nbc", {"factor": float(f[1]), "check_only_active": bool(f[2]) if len(f) > 2 else False})
            elif f[0] == "demelimit":
                dfil.append(DemeLimit(int(f[1])))
        tfil = []
        for f in spec.get("tree_filters", []):
            if f[0] == "levellimit":
                tfil.append(LevelLimit(int(f[1])))
            elif f[0] == "skipsame":
                tfil.append(SkipSameSprout())
        inner = SproutMechanism(gen, dfil, tfil)
    else:
        raise ValueError(k)
    return RecSprout(rec, inner, atoms)


def level_limit_of(spec) -> int:
    """-1 = no LevelLimit filter configured."""
    s = spec["sprout"]
    if s["kind"] in ("simple", "nbc", "nbc_local"):
        return int(s.get("limit", 4))
    if s["kind"] == "scripted":
        return int(s["limit"]) if s.get("limit") is not None else -1
    for f in s.get("tree_filters", []):
        if f[0] == "levellimit":
            return int(f[1])
    return -1


def _decoy_objective(x):
    raise RuntimeError("the objective of the problem a level configuration was first built with has been called")


def build(spec: dict):
    """-> (TreeConfig, Recorder)."""
    dim = int(spec.get("dim", 2))
    bounds = np.array(BOXES[spec.get("box", "sym")](dim), dtype=np.float64)
    maximize = bool(spec.get("maximize", False))
    rec = Recorder(spec.get("fn", "sphere"), bounds, maximize, max_consults=int(spec.get("max_consults", 800)))
    rec.reports = bool(spec.get("reports", False))
    if spec.get("fns"):
        rec.fns = list(spec["fns"])
    rec.dump_at = spec.get("dump_at")
    rec.visuals = bool(spec.get("visuals", False))
    rec.ret_form = spec.get("ret_form", "py")
    rec.hib_off_at = spec.get("hib_off_at") if spec.get("hibernation") else None
    rec.dump_subprocess = bool(spec.get("dump_subprocess", False))
    # (a deep copy does not copy functions: an objective given as a lambda would keep reporting to the live recorder)
    rec.branch_copy = bool(spec.get("branch_copy", False)) and spec.get("objective_form") != "lambda"
    script = spec.get("script")
    levels = []
    problems = []
    for li, lv in enumerate(spec["levels"]):
        objective = LevelObjective(rec, li)
        if spec.get("objective_form") == "lambda":
            objective = (lambda o: (lambda x: o(x)))(objective)       # objectives given as lambdas must survive a snapshot
        p = FunctionProblem(objective, bounds=bounds, maximize=maximize, use_cache=bool(spec.get("use_cache", False)))
        p._verif_level = li              # harness tag: which level's objective this problem evaluates
        for w in spec.get("wrappers", []):
            if w[0] == "count":
                p = EvalCountingProblem(p)
            elif w[0] == "stats":
                p = StatsGatheringProblem(p)
            elif w[0] == "cutoff":
                p = RefusalProbe(EvalCutoffProblem(p, int(w[1])), rec, li)
            elif w[0] == "precision":
                opt = 0.0
                p = PrecisionCutoffProblem(p, opt, float(w[1]))
                if li == 0:
                    rec.precision = p
        problems.append(p)
    if spec.get("shared_problem"):
        problems = [problems[0]] * len(problems)
        rec.shared = True
    for li, lv in enumerate(spec["levels"]):
        lsc = _lsc(lv.get("lsc", {}), rec, li, script)
        if spec.get("retarget_problem"):
            # the level configuration is first built for another problem (opposite direction, a disjoint box, an objective
            # that must never be called) and then pointed at the real one - the `cfg = deepcopy(cfg); cfg.problem = p`
            # idiom of the repository's own tests: nothing may remember the problem the configuration was built with
            width = bounds[:, 1] - bounds[:, 0]
            decoy = FunctionProblem(_decoy_objective, bounds=bounds + 3.0 * width[:, None], maximize=not maximize)
            cfg_l = _level(lv, decoy, lsc, bounds, li)
            cfg_l.problem = problems[li]
            levels.append(cfg_l)
        else:
            levels.append(_level(lv, problems[li], lsc, bounds, li))
    gsc = _gsc(spec["gsc"], rec, script, problems)
    sm = _sprout(spec["sprout"], rec, bounds, script)
    options = {"log_level": "warning", "hibernation": bool(spec.get("hibernation", False))}
    if spec.get("hib_form") == "numpy":          # the flag as it comes out of a numpy comparison / a settings table
        options["hibernation"] = np.bool_(options["hibernation"])
    elif spec.get("hib_form") == "int":
        options["hibernation"] = int(options["hibernation"])
    if spec.get("seed") is not None:
        options["random_seed"] = int(spec["seed"])
    if spec.get("bare_options") and not spec.get("hibernation"):
        options = {"random_seed": int(spec["seed"])}       # an options dict without the optional keys
    if any(lv["engine"] in ("CUSTOM", "DOC") for lv in spec["levels"]):
        cfg = TreeConfig(levels, gsc, sm, options=options,
                         config_class_to_deme_class={CustomLevelConfig: CustomDeme, DocStyleConfig: DocStyleDeme})
    else:
        cfg = TreeConfig(levels, gsc, sm, options=options)
    return cfg, rec


def cfg_summary(spec: dict) -> dict:
    """What the trace specification needs to know about the configuration (all small integers / strings)."""
    eng = []
    for lv in spec["levels"]:
        e = lv["engine"]
        # DOC (a documented-style user deme) follows the protocol of the one-shot samplers: sample, record, then gsc or lsc
        kind = ("SEA" if e in SEA_CLASSES or e == "CUSTOM" else "DE" if e in ("DE", "DEd") else "CMA" if e.startswith("CMA")
                else "LHS" if e == "DOC" else e)
        cls = {"SEA": "EADeme", "DE": "DEDeme", "SHADE": "SHADEDeme", "CMA": "CMADeme", "LOCAL": "LocalDeme", "LHS": "LHSDeme",
               "SOBOL": "SobolDeme"}[kind] if e not in ("CUSTOM", "DOC") else {"CUSTOM": "CustomDeme", "DOC": "DocStyleDeme"}[e]
        eng.append({"eng": kind, "variant": e, "cls": cls, "pop": int(lv.get("pop", 6 if kind != "SOBOL" else 8)) if kind not in ("CMA", "LOCAL") else 0,
                    "gens": int(lv.get("gens", 1)) if kind not in ("LOCAL", "LHS", "SOBOL") else 1,
                    "lsc": lv.get("lsc", {}).get("kind", "DontStop"), "lscn": int(lv.get("lsc", {}).get("n", 0)),
                    "elite": int(lv.get("k_elites", 1)) if (e in SEA_CLASSES and e != "MWEA") or e == "CUSTOM" else 0})
    g = spec["gsc"]
    w = g.get("w", "equal")
    nl = len(spec["levels"])
    weights = [1] * nl if w == "equal" else ([1] + [0] * (nl - 1) if w == "root" else [int(x) for x in w])
    return {"levels": eng, "nlevels": nl, "limit": level_limit_of(spec), "hib": int(bool(spec.get("hibernation", False))),
            "gsc": g["kind"], "gscn": int(g.get("n", 0)), "gscw": weights,
            "max": int(bool(spec.get("maximize", False))), "sprout": spec["sprout"]["kind"],
            "generator": {"simple": "best", "nbc": "nbc", "nbc_local": "nbc_local", "scripted": "scripted",
                          "composed": {"dfs": "best"}.get(spec["sprout"].get("generator", "best"), spec["sprout"].get("generator", "best"))}[spec["sprout"]["kind"]],
            "haslocal": int(any(l["engine"] == "LOCAL" for l in spec["levels"])),
            "cutoff": int(any(w[0] == "cutoff" for w in spec.get("wrappers", []))),
            "wcount": sum(1 for w in spec.get("wrappers", []) if w[0] in ("count", "cutoff", "precision")),
            "idlecheck": int(bool(spec.get("idlecheck", True))),
            "manual": int((spec.get("drive") or ["run"])[0] not in ("run", "interleaved", "hms")),
            "phases": int((spec.get("drive") or ["run"])[0] == "phases"),
            "cache": int(bool(spec.get("use_cache", False))),
            "skipsame": int(spec["sprout"].get("skip_same", False) or any(f[0] == "skipsame" for f in spec["sprout"].get("tree_filters", []))),
            "name": spec.get("name", "")}
