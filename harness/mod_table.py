"""Generic stage for the function-level modules: TLC checks the laws on the definition and writes the complete
case table (POSTCONDITION WriteTable); a replay script feeds every case to the real function."""
from __future__ import annotations

import json
from pathlib import Path

from .common import MachineryError, run_py, run_tlc, tlc_must_pass
from .stages import stage


def table_stage(name: str, module: str, tier: str, replay: str, *, timeout: int = 3000, heap: str = "8g",
                extra_env: dict | None = None) -> dict:
    def build(d: Path) -> dict:
        table = d / "table.ndjson"
        cfg = f"{module}_{tier}.cfg"
        env = {"VERIF_OUT": str(table)}
        env.update(extra_env or {})
        r = run_tlc(module, cfg, d, env=env, deadlock=True, coverage=True, timeout=timeout, heap=heap)
        tlc_must_pass(r, module)
        out = {"tlc": {"generated": r.generated, "distinct": r.distinct, "violated": r.violated,
                       "coverage": r.coverage, "wall_s": round(r.wall_s, 1), "cfg": cfg}}
        if r.violated:
            out["model_violations"] = r.violated
            out["tlc_tail"] = r.out[-3000:]
            return out
        renv = {"OMP_NUM_THREADS": "1", "OPENBLAS_NUM_THREADS": "1", "VERIF_TIER_FULL": "1" if tier == "thorough" else "0"}
        renv.update(extra_env or {})
        p = run_py([replay, str(table), str(d / "replay.json")], timeout=timeout, env=renv)
        if p.returncode != 0:
            raise MachineryError(f"{replay} failed:\n" + p.stdout[-2000:] + p.stderr[-4000:])
        out["replay"] = json.loads((d / "replay.json").read_text())
        out["table_rows"] = sum(1 for _ in open(table))
        table.unlink()
        return out
    return stage(name, tier, build)


def nbc_batch_stage(tier: str) -> dict:
    """larger generated populations: harness generates, TLC (NBCBatch.tla) is the oracle, replay on the real class"""
    from .common import seed
    from .nbc_batch import gen_cases

    def build(d: Path) -> dict:
        n = 150 if tier == "quick" else 1200
        cases = gen_cases(seed(), n)
        (d / "cases.json").write_text(json.dumps(cases))
        rows = d / "rows.ndjson"
        r = run_tlc("NBCBatch", "NBCBatch.cfg", d, env={"VERIF_IN": str(d / "cases.json"), "VERIF_OUT": str(rows)},
                    workers=1, timeout=3000, heap="4g")
        tlc_must_pass(r, "NBCBatch")
        out = {"tlc": {"distinct": r.distinct, "generated": r.generated, "violated": r.violated, "wall_s": round(r.wall_s, 1)},
               "cases": n}
        if r.violated:
            out["model_violations"] = r.violated
            return out
        p = run_py(["harness/nbc_batch.py", str(d / "cases.json"), str(rows), str(d / "replay.json"), str(seed())], timeout=3000,
                   env={"OMP_NUM_THREADS": "1", "OPENBLAS_NUM_THREADS": "1"})
        if p.returncode != 0:
            raise MachineryError("nbc_batch replay failed:\n" + p.stdout[-1500:] + p.stderr[-3000:])
        out["replay"] = json.loads((d / "replay.json").read_text())
        rows.unlink()
        return out
    return stage("nbc_batch", tier, build)


def shade_stage(tier: str) -> dict:
    """growth: Shade.tla model-checked (invariants + witnesses), recorded generations of real SHADE objects validated
    against it by ShadeTrace.tla"""
    from .common import seed
    from .tracecheck import parse_trace_results

    def build(d: Path) -> dict:
        cfg = f"Shade_{tier}.cfg"
        r = run_tlc("Shade", cfg, d, deadlock=True, coverage=True, timeout=900, heap="2g")
        tlc_must_pass(r, "Shade")
        out = {"tlc": {"generated": r.generated, "distinct": r.distinct, "violated": r.violated, "cfg": cfg, "wall_s": round(r.wall_s, 1)}}
        w = run_tlc("Shade", "Shade_witness.cfg", d, deadlock=True, timeout=900, heap="2g", extra=["-continue"])
        out["witnesses_reached"] = sorted(set(w.violated))
        n = 60 if tier == "quick" else 600
        path = d / "traces.json"
        p = run_py(["harness/shade_growth.py", str(path), str(seed()), str(n)], timeout=1800,
                   env={"OMP_NUM_THREADS": "1", "OPENBLAS_NUM_THREADS": "1"})
        if p.returncode != 0:
            raise MachineryError("shade_growth recording failed:\n" + p.stdout[-1500:] + p.stderr[-3000:])
        out["recorded"] = json.loads(p.stdout.strip().splitlines()[-1])
        t = run_tlc("ShadeTrace", "ShadeTrace.cfg", d, workers=4, env={"VERIF_TRACES": str(path)}, deadlock=True, heap="4g")
        res = parse_trace_results(t.out)
        if not t.ok or len(res) != n:
            raise MachineryError(f"ShadeTrace: {len(res)}/{n} traces reported:\n" + "\n".join(t.out.splitlines()[-20:]))
        out["trace_states"] = t.distinct
        by = {}
        for x in res:
            for c, l in x["viol"]:
                by.setdefault(c, []).append(f"{x['name']} generation {l}")
        out["clauses_violated"] = {c: {"n": len(v), "first": v[0]} for c, v in sorted(by.items())}
        path.unlink()
        return out
    return stage("shade_growth", tier, build)
