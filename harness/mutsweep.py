"""Developer tool (not a registered check): systematic mutation sweep.

Applies small syntactic mutants to a scratch copy of the package (outside /repo and /verif, removed afterwards), keeps
those that still import and pass the repository's own test suite, and runs the quick checks against each of them
(VERIF_REPO=<scratch>).  A surviving mutant is either equivalent or a blind spot - to be triaged by hand.

usage: python -m harness.mutsweep <out.json> [--max N] [--seed S] [--files a.py,b.py] [--repo /repo]
"""
from __future__ import annotations

import argparse
import json
import os
import random
import re
import shutil
import subprocess
import sys
import tempfile
import time
from pathlib import Path

VERIF = Path(__file__).resolve().parent.parent
TARGETS = [
    "pyhms/tree.py", "pyhms/hms.py", "pyhms/initializers.py", "pyhms/core/problem.py", "pyhms/core/individual.py",
    "pyhms/core/population.py", "pyhms/demes/abstract_deme.py", "pyhms/demes/ea_deme.py", "pyhms/demes/de_deme.py",
    "pyhms/demes/shade_deme.py", "pyhms/demes/cma_deme.py", "pyhms/demes/local_deme.py", "pyhms/demes/lhs_deme.py",
    "pyhms/demes/sobol_deme.py", "pyhms/demes/initialize.py", "pyhms/demes/single_pop_eas/common.py",
    "pyhms/demes/single_pop_eas/sea.py", "pyhms/demes/single_pop_eas/de.py", "pyhms/sprout/sprout_filters.py",
    "pyhms/sprout/sprout_generators.py", "pyhms/sprout/sprout_mechanisms.py", "pyhms/stop_conditions/gsc.py",
    "pyhms/stop_conditions/lsc.py", "pyhms/stop_conditions/usc.py", "pyhms/utils/clusterization.py", "pyhms/utils/r5s.py",
    "pyhms/utils/print_tree.py",
]
OPS = [
    (r">=", ">"), (r"<=", "<"), (r"(?<![<>=!])>(?![=>])", ">="), (r"(?<![<>=!-])<(?![=<])", "<="),
    (r"==", "!="), (r"!=", "=="), (r"\+ 1\b", "+ 0"), (r"- 1\b", "+ 1"), (r"\+ 1\b", "+ 2"),
    (r"\bTrue\b", "False"), (r"\bFalse\b", "True"), (r"\band\b", "or"), (r"\bor\b", "and"), (r"\bnot ", ""),
    (r"\bmax\(", "min("), (r"\bmin\(", "max("), (r"reverse=True", "reverse=False"), (r"\bis not None\b", "is None"),
    (r"\[-1\]", "[0]"), (r"\[0\]", "[-1]"), (r"\.append\(", ".insert(0, "), (r"\bcontinue\b", "pass"),
    (r"axis=0", "axis=1"), (r"axis=1", "axis=0"),
]
ORDER = ["C03", "C06", "C05", "C07", "C08", "C18", "C01", "C02", "C04", "C09", "C10", "C11", "C12", "C19", "C20",
         "C16", "C17", "C15", "C13", "C14"]


def candidates(repo: Path, files: list[str]):
    out = []
    for f in files:
        src = (repo / f).read_text().splitlines()
        # skip plotting / visualisation part of tree.py
        limit = 290 if f == "pyhms/tree.py" else len(src)
        indoc = False
        for ln, line in enumerate(src[:limit]):
            st = line.strip()
            if st.count('"""') == 1:
                indoc = not indoc
                continue
            if indoc or not st or st.startswith(("#", "import ", "from ", '"""', "def ", "class ", "@", "raise ", "self._logger", "self.log(")):
                continue
            code = line.split("  #")[0]
            for k, (pat, rep) in enumerate(OPS):
                for m in re.finditer(pat, code):
                    out.append({"file": f, "line": ln + 1, "op": k, "col": m.start(), "old": line,
                                "new": code[:m.start()] + re.sub(pat, rep, code[m.start():], count=1) + line[len(code):]})
    return out


def sh(cmd, cwd, env=None, timeout=3600):
    p = subprocess.run(cmd, cwd=cwd, shell=True, capture_output=True, text=True, timeout=timeout, env=env)
    return p.returncode, p.stdout + p.stderr


def main():
    ap = argparse.ArgumentParser()
    ap.add_argument("out")
    ap.add_argument("--max", type=int, default=40)
    ap.add_argument("--seed", type=int, default=1)
    ap.add_argument("--files", default="")
    ap.add_argument("--repo", default=os.environ.get("VP_RUN_REPO") or "/repo")
    ap.add_argument("--props", default=",".join(ORDER))
    a = ap.parse_args()
    files = [f for f in a.files.split(",") if f] or TARGETS
    scratch = Path(tempfile.mkdtemp(prefix="mutsweep_"))
    repo = scratch / "repo"
    try:
        shutil.copytree(a.repo, repo, ignore=shutil.ignore_patterns(".git", "__pycache__", "*.pyc"))
        cands = candidates(repo, files)
        random.Random(a.seed).shuffle(cands)
        res = []
        tested = 0
        for c in cands:
            if tested >= a.max:
                break
            path = repo / c["file"]
            orig = path.read_text()
            lines = orig.splitlines(keepends=True)
            lines[c["line"] - 1] = c["new"] + "\n"
            path.write_text("".join(lines))
            try:
                rc, o = sh("/venv/bin/python -c 'import pyhms, pyhms.tree, pyhms.hms'", repo, timeout=120)
                if rc != 0:
                    continue
                rc, o = sh("/venv/bin/python -m pytest -q -x -p no:cacheprovider --timeout=300 2>&1 | tail -1", repo, timeout=1200)
                if "passed" not in o or "failed" in o or "error" in o:
                    continue
                tested += 1
                env = dict(os.environ, VERIF_REPO=str(repo))
                killed_by, t0 = None, time.time()
                for pid in a.props.split(","):
                    rc, o = sh(f"./check {pid} --tier quick", VERIF, env=env, timeout=5400)
                    if rc == 1:
                        first = next((l for l in o.splitlines() if l.startswith("  clause")), "")
                        killed_by = [pid, first.strip()[:200]]
                        break
                    if rc == 2:
                        killed_by = [pid, "MACHINERY: " + o.strip().splitlines()[-1][:200]]
                        break
                rec = {k: c[k] for k in ("file", "line", "old", "new")}
                rec.update(killed_by=killed_by, wall_s=round(time.time() - t0))
                res.append(rec)
                print(json.dumps(rec), flush=True)
                Path(a.out).write_text(json.dumps(res, indent=1))
            finally:
                path.write_text(orig)
        Path(a.out).write_text(json.dumps(res, indent=1))
        surv = [r for r in res if r["killed_by"] is None]
        print(f"mutants that pass the test suite: {len(res)}; killed: {len(res) - len(surv)}; survived: {len(surv)}")
    finally:
        shutil.rmtree(scratch, ignore_errors=True)


if __name__ == "__main__":
    main()
