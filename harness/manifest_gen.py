"""Generates /verif/MANIFEST.json from the registry + the per-property texts below (single source)."""
import json
from pathlib import Path

VERIF = Path(__file__).resolve().parent.parent

TEXT = {
 "C17": dict(
    technique="TLA+ definition (Bounds.tla) model-checked by TLC; TLC-generated exhaustive case table replayed on apply_bounds",
    text="TLC enumerates every lattice case (3 methods x boxes x inputs incl. faces, one-ulp offsets, exact multiples of the range) of Bounds.tla, checks the property's laws on the definition, and the complete table is replayed on the real apply_bounds under 9 float concretisations incl. (-0.1,0.2), 1e-9 and 1e9 ranges; every case additionally as a single vector, where integer-valued as int64 / float32 arrays, as Fortran-ordered / transposed / strided / read-only populations, and (toroidal) through GaussianMutation with forced noise. Exhaustive for the bounded lattice; floats enter through the stated ulp tolerances.",
    note="Trusted: TLC, the harness' concretisation/ulp comparison, numpy. Not covered: inputs that are not an affine image of a lattice point within Span ranges of the box; scales between 1e9 and 2^1022. Boxes within a factor 4 of the largest double are covered by the near-max concretisation; there known_findings.json records KF-C17-overflow (NaN when x - lower overflows), reported as KNOWN-FINDING.",
    design_ref="4/C17"),
}

TRACE_TECH = "recorded traces of the real library validated event by event against the TLA+ spec (HMSTrace.tla re-using HMS.tla) by TLC; "
TRACE_NOTE = ("Trusted: TLC; the recorder (pass-through wrappers around objective / stop conditions / sprout mechanism, public API only) and its atoms "
              "(inbox, truth, centroid-is-mean, far) computed by the harness; deterministic corpus objectives. Covers the runs of the corpus "
              "(randomized engine matrix + repository test configurations + TLC-generated scenario scripts), not all runs.")
def _t(text, tech, ref, note=TRACE_NOTE):
    return dict(text=text, technique=tech, design_ref=ref, note=note)

TEXT.update({
 "C13": dict(
    technique="PairTrace.tla (self-composition of twin traces) checked by TLC + direction-parameterised TLA+ definitions (Engines/Sprout/NBC/R5S.tla) whose tables are replayed in both directions",
    text="Whole-run form: seeded twin runs on (f, maximize) and (-f, minimize) over index-stable engine mixes are recorded and PairTrace.tla requires identical event streams (genome ids, goodness ranks, tree projections, digests) - this covers the descent direction of CMA-ES and the local search; half of the mirrors are built from level configurations that were first constructed for the opposite direction and then pointed at the real problem. Decision form: every selection definition is written on goodness ranks; TLC-generated tables for individual ordering, top-k, (mu+k) truncation, DE/SHADE replacement, tournament, NBC, DemeLimit/LevelLimit and R5S are replayed on the real components in both formulations and the two results must agree with the table and with each other.",
    note="Trusted: TLC, recorder, rank/id projection. SEA-family whole runs, MWEA utility and FitnessSteadiness are excluded as the property excludes them.",
    design_ref="4/C13"),
 "C14": dict(
    technique="PairTrace.tla (self-composition of repeat traces) checked by TLC over a seeded corpus",
    text="For configurations of the full engine matrix the same seeded run is recorded in-process, again after scrambling the global random/numpy generators, and in a fresh subprocess with a different PYTHONHASHSEED; PairTrace.tla requires the event streams (ids, start metaepochs, genome ids, ranks, counters, flags, digests) to be equal and reports the first differing event; the repeat corpus includes hash-sensitive configurations (several demes per round) and a partially defined objective (NaN comparisons consult Python's global generator); each run is also validated by HMSTrace.",
    note="Trusted: TLC, recorder. The specification's contribution is equality of behaviours; the quantifier is carried by the corpus (see evidence).",
    design_ref="4/C14"),
 "C15": dict(
    technique="TLA+ definition of nearest-better clustering (NBC.tla) checked by TLC; exhaustive lattice tables replayed on NearestBetterClustering with metamorphic images; NBCBatch.tla evaluated by TLC as the exact oracle for generated populations of 8-128 individuals",
    text="NBC.tla is the definition in integers (ties, truncation as a relation, strictly-better attachment, threshold test exact); TLC checks best-is-seed, scale/translate/mirror invariance and factor monotonicity on every bounded population and writes every case with its acceptable results; the replay runs the real class on each case under several embeddings (dimension, axis, exact scales incl. spacing 2^-30 around 1.0 and 2^20), permuted input orders and both directions, comparing seeds and distances.",
    note="Trusted: TLC, exact power-of-two concretisation. Exhaustive part: population size bounded (quick 4, thorough 5; 2-D grid 3-4 points). Larger populations (8-60, and 64-128 with few populous clusters, on a line embedded along Pythagorean directions so that every distance is exact) are generated, not enumerated; their expected seeds come from TLC evaluating NBCBatch.tla.",
    design_ref="4/C15"),
 "C16": dict(
    technique="TLA+ state machine of wrapper stacks (Problem.tla) model-checked by TLC; every (stack, call sequence) of the model replayed on real wrapper objects",
    text="TLC explores all wrapper stacks up to depth 3 (thorough 4) over {counting, stats, precision, cutoff(N)} and all call sequences - each call entering the stack at the top or, for stacks of up to two layers, directly at an inner layer (a shared inner wrapper) -, checks transparency, count law, cutoff prefix / hard budget / own budget, first-hit and stickiness as invariants / action properties, and writes every maximal behaviour; each is replayed call by call on real EvalCountingProblem / EvalCutoffProblem / PrecisionCutoffProblem / StatsGatheringProblem stacks in both directions with the projected state compared after every call.",
    note="Trusted: TLC, the replay's value concretisation. Depth and call-sequence length are bounded (see evidence).",
    design_ref="4/C16"),
 "C01": _t("Every objective call, every individual of every recorded generation, every sprout seed of every run of the corpus carries the harness-computed atom inbox; clauses C01_EvalInBox / C01_StoredInBox / C01_SeedInBox are evaluated by TLC on every event of every trace. Corpus spans all engines, 6 box classes (incl. (-0.1,0.2), 1e-9, 1e9), dims 2-4.",
           TRACE_TECH + "clauses C01_*", "4/C01"),
 "C02": _t("TLC evaluates C02_TrueFitness (stored fitness = pure re-evaluation of the stored genome, or the cutoff sentinel after a refusal) on every recorded generation, best individual and seed, and C02_HistoryAppendOnly (digest of the first n generations at a later snapshot = digest recorded when there were n) between all consecutive boundary snapshots.",
           TRACE_TECH + "clauses C02_*", "4/C02"),
 "C03": _t("HMS.tla advances its per-deme evaluation counters with the recorder's ground-truth call batches; at every stop-condition consult TLC compares them with the counters the tree reports (per deme, per level against one recorder stream per level, tree total = sum), guarded by 'no refusal yet'. Design model: total = sum over levels in every state; evaluation budget (forwarded / refused requests) with C03_BudgetHard, C03_TotalEqualsCalls, C03_RequestsSplit as invariants over the configurations minimize(maxfun=N) builds, N in 1..9, and reachability witnesses (a budget runs out, a budget cuts a batch). Corpus includes objectives that themselves return the worst infinity (real evaluations that look like refusals), one objective per level (multi-fidelity, with and without memoising problems), pickled and deep-copied checkpoints that are run on. RunAPI.tla: reported total = number of objective calls for unwrapped runs of run() / hms().",
           "TLC design model (HMSModel.tla) + " + TRACE_TECH + "clauses C03_*", "4/C03"),
 "C04": _t("At every boundary snapshot TLC checks that the reported tree / deme best has the minimum goodness rank of all generations logged so far and is one of them, that it never gets worse, and (no local level, no refusal) equals the best rank the recorder ever returned.",
           TRACE_TECH + "clauses C04_*", "4/C04"),
 "C05": _t("Design model: TLC explores every position at which a scripted or shipped global stop condition can first turn true (after any generation of any deme, post-metaepoch, loop head) and checks done=>gsc, counter = metaepochs performed (exactly n / 0), no sprout after gsc, wind-down <= 1 iteration per deme. Every maximal corner is replayed on the real code by TLC-generated scripts; every recorded run is validated against the same operators, shipped conditions' verdicts are recomputed by the spec. RunAPI.tla adds black-box runs of DemeTree.run() / hms() with unwrapped library objects (shipped conditions, user conditions derived from shipped classes that log their own consults): nothing happens under a metaepoch counter larger than the one at which the condition first answered TRUE; evaluation limits are reached at the final boundary and not at the one before.",
           "TLC design model (HMSModel.tla, exhaustive for small constants) + TLC-generated scenario scripts replayed on pyhms + " + TRACE_TECH + "clauses C05_*", "4/C05"),
 "C06": _t("Design model invariants / action properties (stepped exactly once, newborn runs next metaepoch, stop causes, inactive frozen) over all scripted LSC firings; traces: the model predicts active flag, metaepoch and generation counts of every deme at every consult from the verdicts and call batches, TLC compares with the projection of the real tree (shipped LSC verdicts recomputed by the spec).",
           "TLC design model + scenario scripts + " + TRACE_TECH + "clauses C06_*", "4/C06"),
 "C07": _t("C07_Structure / C07_IdLaw are invariants of the design model and are evaluated by TLC on the projection of the real tree at every consult; seeds: C07_SeedFromParentPopulation, C07_SeedInInitialPopulation on every round / new deme.",
           "TLC design model + " + TRACE_TECH + "clauses C07_*", "4/C07"),
 "C08": _t("C08_ActiveWithinLimit is an invariant of every state of the design model (slots freed by LSCs at arbitrary times, several parents, offers above the free slots) and is evaluated on the census of the real tree at every consult (after every generation); C08_RoundWithinFreeSlots on every round.",
           "TLC design model + scenario scripts + " + TRACE_TECH + "clauses C08_*", "4/C08"),
 "C09": _t("C09_CentroidCurrent at every boundary for every deme (reported centroid vs mean of the current population, harness atom); C09_FarFromConsidered for every seed returned by FarEnough / NBC_FarEnough mechanisms against recomputed centroids of the considered demes.",
           TRACE_TECH + "clauses C09_*", "4/C09"),
 "C10": _t("Sprout.tla defines each filter as a relation (acceptable outputs where the property leaves a choice); TLC explores every composition order of DemeLimit / FarEnough / LevelLimit / SkipSameSprout as a state machine (filters only remove, limits hold whatever comes later) and writes per-filter tables (all candidate sets with ties, both directions, occupancy incl. more active demes than the limit); every row is replayed on the real filter objects (SkipSameSprout also with parents on two different levels, in both dictionary orders). Generators: provenance clauses (candidates from current populations of active non-leaf demes, BestPerDeme proposes the current best, used subset of generated) on every round of every recorded run.",
           "TLA+ relations + state machine (Sprout.tla) checked by TLC; exhaustive tables replayed on the real filters; " + TRACE_TECH + "clauses C10_*", "4/C10"),
 "C11": _t("For all consecutive generation pairs of every population-engine deme TLC checks: each individual (genome id, rank) was in the preceding generation or its genome was evaluated in the iteration that produced the generation (iteration call sets delimited by the deme's own consults); generations committed without an observed iteration must consist of individuals evaluated by that deme since the last boundary. Corpus includes caller-driven runs (run_step loops, run() called again after the limit was raised).",
           TRACE_TECH + "clause C11_BredFromPredecessor", "4/C11"),
 "C12": _t("For all consecutive generation pairs: best rank not worse (SEA family with elites, DE, SHADE), sorted rank vector componentwise not worse (DE, SHADE), generation size = configured population size (CMA: constant lambda).",
           TRACE_TECH + "clauses C12_*", "4/C12"),
 "C18": _t("Design model with 3 levels: hib flag <=> no sprout in the last round the deme took part in, newborn awake, asleep means frozen, off means never; progress clause per metaepoch. Traces: flags predicted by the model from the observed rounds and compared at every consult. Objective calls attributed to a sleeping (or stopped) deme between any two events are violations. The two idle-metaepoch shapes of known_findings.json are reported as KNOWN-FINDING - the stall only when the generator had proposed candidates for every sleeping deme in the preceding round; any other idle metaepoch is a violation.",
           "TLC design model (incl. reachability witness of the stall) + scenario scripts + " + TRACE_TECH + "clauses C18_*", "4/C18"),
})

TEXT.update({
 "C19": _t("At TLC-/generator-chosen metaepoch boundaries k the recorder dumps the live tree, checks that dumping is a stutter (digest of the whole tree and of the global random state unchanged), loads the snapshot and compares projection, summary() and stop-condition verdict (clauses C19_DumpIsStutter, C19_LoadEqualsSnapshot, C19_SummarySame, C19_VerdictSame evaluated by TLC), then runs the loaded tree to its end under its own recorder copy: the continued trace is validated by HMSTrace from the restored state (structure, level limit, accounting, best never worse = C19_ContinuationValid). Engines incl. CMA, SHADE, LHS/Sobol, LOCAL; objectives as callables and lambdas.",
           TRACE_TECH + "clauses C19_* and HMS.tla invariants on the continuation of the restored tree", "4/C19"),
 "C20": _t("At every loop-head boundary of ~40% of the corpus the recorder calls every reporting/query accessor twice, parses summary()/tree() and logs parsed fields, purity (tree + RNG digest unchanged, no objective call) and idempotence; Report.tla defines the required content as a function of the projected tree and TLC compares (header, per-level numbers, one line per displayed deme with its evaluation count, *** exactly on demes holding the global best). 'Looking does not change the tree': seeded runs read densely (all accessors at every boundary) and sparsely (every 2nd / 3rd / 4th boundary, the wrappers not touching the tree in between) must give equal answers at common boundaries (PairTrace.tla, kind look).",
           TRACE_TECH + "Report.tla clauses C20_*; PairTrace.tla on dense vs sparse observation runs", "4/C20"),
})

NOT_YET = "check not built yet in this round (see DESIGN.md section 4); no claim is made"


def main():
    props = [json.loads(l)["id"] for l in (VERIF / "properties.jsonl").read_text().splitlines() if l.strip()]
    checks, na = [], []
    for pid in props:
        if pid in TEXT:
            t = TEXT[pid]
            checks.append({
                "property_id": pid,
                "quick_cmd": f"./check {pid} --tier quick",
                "thorough_cmd": f"./check {pid} --tier thorough",
                "evidence_file": f"/verif/evidence/{pid}.json",
                "replay_cmd_template": f"./check {pid} --replay {{path}}",
                "engine": "tlc+conformance",
                "level_claimed": {"category": t.get("category", "model_checking"), "text": t["text"],
                                  "design_ref": t["design_ref"]},
                "level_note": t["note"],
                "technique": t["technique"],
            })
        else:
            na.append({"property_id": pid, "reason": NOT_YET})
    m = {
        "version": 1,
        "setup_cmd": "./setup.sh",
        "hooks": {"guard": "PYHMS_VERIF", "enable": "none needed: all observation points are user-supplied objects of the public API (objective, stop conditions, sprout mechanism); checks import /repo's working tree via PYTHONPATH=/repo",
                  "baseline_off_cmd": "cd /repo && env -u PYHMS_VERIF /venv/bin/python -m pytest -ra -q -p no:cacheprovider --timeout=900 --continue-on-collection-errors",
                  "source_commits": [], "add_only": True},
        "engines": [{"name": "tlc+conformance", "path": "/verif/check",
                     "serves_properties": [c["property_id"] for c in checks],
                     "kind_free_text": "explicit TLA+ specifications checked by TLC 1.8; TLC-generated cases/scenarios replayed into pyhms; traces recorded from pyhms validated by TLC against the specifications"}],
        "checks": checks,
        "not_applicable": na,
        "notes": "See DESIGN.md. known_findings.json lists recorded defects and fix commits.",
    }
    (VERIF / "MANIFEST.json").write_text(json.dumps(m, indent=1) + "\n")


if __name__ == "__main__":
    main()
