"""Generates /verif/MANIFEST.json from the registry + the per-property texts below (single source)."""
import json
from pathlib import Path

VERIF = Path(__file__).resolve().parent.parent

TEXT = {
 "C17": dict(
    technique="TLA+ definition (Bounds.tla) model-checked by TLC; TLC-generated exhaustive case table replayed on apply_bounds",
    text="TLC enumerates every lattice case (3 methods x boxes x inputs incl. faces, one-ulp offsets, exact multiples of the range) of Bounds.tla, checks the property's laws on the definition, and the complete table is replayed on the real apply_bounds under 9 float concretisations incl. (-0.1,0.2), 1e-9 and 1e9 ranges. Exhaustive for the bounded lattice; floats enter through the stated ulp tolerances.",
    note="Trusted: TLC, the harness' concretisation/ulp comparison, numpy. Not covered: inputs that are not an affine image of a lattice point within Span ranges of the box.",
    design_ref="4/C17"),
}

NOT_YET = "check not built yet in this round (see DESIGN.md section 4); no claim is made"


def main():
    props = [json.loads(l)["id"] for l in (VERIF / "properties.jsonl").read_text().splitlines() if l.strip()]
    checks, na = [], []
    for pid in props:
        if pid in TEXT:
            t = TEXT[pid]
            checks.append({
                "property_id": pid,
                "quick_cmd": f"./check {pid} --tier quick",
                "thorough_cmd": f"./check {pid} --tier thorough",
                "evidence_file": f"/verif/evidence/{pid}.json",
                "replay_cmd_template": f"./check {pid} --replay {{path}}",
                "engine": "tlc+conformance",
                "level_claimed": {"category": t.get("category", "model_checking"), "text": t["text"],
                                  "design_ref": t["design_ref"]},
                "level_note": t["note"],
                "technique": t["technique"],
            })
        else:
            na.append({"property_id": pid, "reason": NOT_YET})
    m = {
        "version": 1,
        "setup_cmd": "./setup.sh",
        "hooks": {"guard": "PYHMS_VERIF", "enable": "none needed: all observation points are user-supplied objects of the public API (objective, stop conditions, sprout mechanism); checks import /repo's working tree via PYTHONPATH=/repo",
                  "baseline_off_cmd": "cd /repo && env -u PYHMS_VERIF /venv/bin/python -m pytest -ra -q -p no:cacheprovider --timeout=900 --continue-on-collection-errors",
                  "source_commits": [], "add_only": True},
        "engines": [{"name": "tlc+conformance", "path": "/verif/check",
                     "serves_properties": [c["property_id"] for c in checks],
                     "kind_free_text": "explicit TLA+ specifications checked by TLC 1.8; TLC-generated cases/scenarios replayed into pyhms; traces recorded from pyhms validated by TLC against the specifications"}],
        "checks": checks,
        "not_applicable": na,
        "notes": "See DESIGN.md. known_findings.json lists recorded defects and fix commits.",
    }
    (VERIF / "MANIFEST.json").write_text(json.dumps(m, indent=1) + "\n")


if __name__ == "__main__":
    main()
