"""Cached pipeline stages.  A stage result is a JSON file in the cache dir of (repo tree, harness, seed, tier);
any edit under /repo/pyhms or /verif/{harness,spec} changes the key, so results are always rebuilt from the
current working tree."""
from __future__ import annotations

import fcntl
import json
import time
from pathlib import Path

from .common import cache_dir


def stage(name: str, tier: str, build):
    """build(dir: Path) -> dict.  Returns the (possibly cached) dict."""
    d = cache_dir(tier) / name
    d.mkdir(parents=True, exist_ok=True)
    res = d / "result.json"
    lock = open(d / ".lock", "w")
    fcntl.flock(lock, fcntl.LOCK_EX)
    try:
        if res.exists():
            out = json.loads(res.read_text())
            out["_cached"] = True
            return out
        t0 = time.time()
        out = build(d)
        out["_wall_s"] = round(time.time() - t0, 2)
        res.write_text(json.dumps(out, default=str))
        out["_cached"] = False
        return out
    finally:
        fcntl.flock(lock, fcntl.LOCK_UN)
        lock.close()
