"""Stage: Bounds.tla model run + replay of its case table on apply_bounds."""
from __future__ import annotations

import json
from pathlib import Path

from .common import MachineryError, run_py, run_tlc, tlc_must_pass
from .stages import stage


def bounds_stage(tier: str) -> dict:
    def build(d: Path) -> dict:
        table = d / "table.ndjson"
        cfg = "Bounds_quick.cfg" if tier == "quick" else "Bounds_thorough.cfg"
        r = run_tlc("Bounds", cfg, d, env={"VERIF_OUT": str(table)}, deadlock=True, coverage=True)
        tlc_must_pass(r, "Bounds")
        out = {"tlc": {"generated": r.generated, "distinct": r.distinct, "violated": r.violated,
                       "coverage": r.coverage, "wall_s": r.wall_s, "cfg": cfg}}
        if r.violated:
            out["model_violations"] = r.violated
            out["tlc_tail"] = r.out[-3000:]
            return out
        p = run_py(["harness/replay_bounds.py", str(table), str(d / "replay.json")])
        if p.returncode != 0:
            raise MachineryError("replay_bounds failed:\n" + p.stdout[-2000:] + p.stderr[-4000:])
        out["replay"] = json.loads((d / "replay.json").read_text())
        return out
    return stage("bounds", tier, build)
