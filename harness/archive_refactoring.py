import json, subprocess, sys, shutil
from pathlib import Path
rid=sys.argv[1]
wt=Path('/tmp/wt')/rid
dest=Path('/verif/seeded')/rid
dest.mkdir(parents=True, exist_ok=True)
diff=subprocess.run("git diff -- pyhms; git ls-files --others --exclude-standard -- pyhms | xargs -r -n1 git diff --no-index /dev/null --", cwd=wt, shell=True, capture_output=True, text=True).stdout
(dest/'patch.diff').write_text(diff)
if (wt/'CHANGE.md').exists(): shutil.copy(wt/'CHANGE.md', dest/'CHANGE.md')
log=open(f'/tmp/rc_{rid}.log').read().splitlines()
oks=[l for l in log if l.startswith('OK prop')]
bad=[l for l in log if l.startswith(('VIOLATION','MACHINERY'))]
meta={"id":rid,"kind":"behaviour-preserving refactoring (false-alarm test)","tests_with_change":log[0] if log else "","checks_ok":len(oks),
      "alarms":bad,"verdict":"no check raised an alarm" if len(oks)==20 and not bad else "SEE alarms",
      "ran":"all 20 quick checks with VERIF_REPO=<worktree> from a frozen copy of /verif"}
(dest/'meta.json').write_text(json.dumps(meta,indent=1))
print(rid, meta['verdict'], len(diff.splitlines()),'diff lines')
