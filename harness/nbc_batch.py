"""C15 beyond exhaustive enumeration: larger generated populations, TLC (NBCBatch.tla) as the exact oracle.

gen      -> cases.json   (harness: seeded generator)
TLC      -> rows.ndjson  (seeds / exact-equality individuals per case, metamorphic laws on the definition)
replay   -> every case on NearestBetterClustering under Pythagorean embeddings (all distances exact in floats),
            permuted input orders, both directions
"""
from __future__ import annotations

import json
import random
import sys

DIRS = [(1,), (3, 4), (1, 2, 2), (2, 3, 6), (4, 4, 7), (0, 3, 0, 4), (1, 1, 1, 1), (2, 4, 5, 6)]   # integer lengths 1 5 3 7 9 5 2 9
# dyadic factors only (n * tn / td is then exact in floats, so floor(n * factor) is what the definition says); 5/8, 3/8
# and 7/8 are no whole percents
TRUNCS = [(1, 1), (1, 2), (3, 4), (1, 4), (7, 8), (5, 8), (3, 8)]
FACTORS = [(1, 1), (3, 2), (2, 1), (3, 1), (5, 2), (1, 2)]


def gen_cases(seed: int, n_cases: int) -> list[dict]:
    r = random.Random(seed * 31 + 9)
    out = []
    # the last sixth of the cases: populations of 64-128 (beyond anything a shipped configuration or test uses: size-
    # dependent fast paths - spatial indices, neighbour lists - live there) with few, populous clusters, barely truncated
    n_big = max(8, n_cases // 6)
    for k in range(n_cases):
        big = k >= n_cases - n_big
        if big and k == n_cases - n_big:
            r = random.Random(seed * 37 + 11)      # own stream: the smaller cases stay what they were
        n = r.choice([64, 80, 100, 128]) if big else r.choice([8, 10, 12, 16, 20, 25, 32, 40, 50, 60])
        shape = r.choice(["uniform", "clusters", "clusters", "dense"])
        if shape == "uniform":
            pos = r.sample(range(0, 4000), n)
        elif shape == "dense":
            pos = r.sample(range(0, 3 * n), n)
        else:
            centres = [r.randrange(0, 6000) for _ in range(r.choice([2, 3, 3] if big else [2, 3, 4, 6]))]
            s = set()
            while len(s) < n:
                s.add(r.choice(centres) + r.randrange(-40, 41))
            pos = list(s)
        r.shuffle(pos)
        ranks = list(range(n))
        r.shuffle(ranks)
        if r.random() < 0.35:      # tie groups among the non-best individuals
            g = r.choice([2, 3])
            ranks = [0 if x == 0 else 1 + (x - 1) // g for x in ranks]
        tn, td = r.choice([(1, 1), (7, 8), (3, 4), (5, 8)]) if big else r.choice(TRUNCS)
        m = (n * tn) // td
        pts = [{"p": p, "r": rk} for p, rk in zip(pos, ranks)]
        # the cut must not split a tie group (then the definition leaves a choice: covered by the exhaustive tables)
        srt = sorted(x["r"] for x in pts)
        if m < 1 or (m < n and srt[m - 1] == srt[m]):
            m = n
            tn, td = 1, 1
        fn, fd = r.choice(FACTORS)
        out.append({"pts": pts, "fn": fn, "fd": fd, "m": m, "tn": tn, "td": td})
    return out


def replay(cases: list[dict], rows: list[dict], seed: int) -> dict:
    import numpy as np
    from pyhms.core.individual import Individual
    from pyhms.core.problem import FunctionProblem
    from pyhms.utils.clusterization import NearestBetterClustering
    r = random.Random(seed)
    viol, n_eval = [], 0
    by_id = {row["id"]: row for row in rows}
    for k, c in enumerate(cases, start=1):
        row = by_id[k]
        if not row["ok"]:
            raise SystemExit(f"generator produced an ambiguous case {k}")
        expect, eq = set(row["seeds"]), set(row["eq"])
        n = len(c["pts"])
        for rep in range(3):
            v = DIRS[(k + rep) % len(DIRS)]
            scale, off = [(1.0, 0.0), (0.5, -3.0), (2.0 ** -20, 1.0), (8.0, 2.0 ** 20)][(k + 2 * rep) % 4]
            maximize = bool((k + rep) % 2)
            dim = len(v) + (k % 3)
            prob = FunctionProblem(lambda x: 0.0, bounds=np.array([[-1e12, 1e12]] * dim), maximize=maximize)
            order = list(range(n))
            r.shuffle(order)
            inds, back = [], {}
            for i in order:
                pt = c["pts"][i]
                g = np.full(dim, off, dtype=np.float64)
                for a, comp in enumerate(v):
                    g[a] = off + pt["p"] * scale * comp
                fit = [100.0 + 0.125 * pt["r"], 1024.0 + 2.0 ** -40 * pt["r"], 1e-300 * (1 + pt["r"])][(k + rep) % 3]
                ind = Individual(g, prob, -fit if maximize else fit)
                inds.append(ind)
                back[id(ind)] = pt["p"]
            n_eval += 1
            sig = (f"batch case {k}: n={n} kept={c['m']} factor={c['fn']}/{c['fd']} direction={v} scale={scale} offset={off} "
                   f"maximize={maximize}")
            try:
                if rep == 1:
                    # the same Individual objects have been clustered before as part of another population (an archive
                    # that grows, the sprout mechanism and then an analysis of the whole history): nothing may stick to them
                    NearestBetterClustering(inds[: max(2, n // 2)], c["fn"] / c["fd"], 1.0).cluster()
                    NearestBetterClustering(inds[n // 3:], 1.0, 1.0).cluster()
                seeds = NearestBetterClustering(inds, c["fn"] / c["fd"], c["tn"] / c["td"]).cluster()
                got = {back[id(s)] for s in seeds}
            except Exception as ex:  # noqa: BLE001
                viol.append({"clause": "C15_ExactSeeds", "signature": sig, "detail": {"exception": repr(ex)[:200]}})
                continue
            if (got - eq) != (expect - eq) or len(seeds) != len(got):
                viol.append({"clause": "C15_ExactSeeds", "signature": sig,
                             "detail": {"missing": sorted(expect - eq - got)[:8], "unexpected": sorted(got - eq - expect)[:8],
                                        "n_expected": len(expect), "n_got": len(seeds)}})
    return {"evaluations": n_eval, "violations": viol[:200], "cases": len(cases),
            "sizes": sorted({len(c["pts"]) for c in cases}), "sample": {"case": {k: v for k, v in cases[0].items() if k != "pts"},
                                                                       "n": len(cases[0]["pts"]), "seeds": rows[0]["seeds"][:10]}}


if __name__ == "__main__":
    cases = json.load(open(sys.argv[1]))
    rows = [json.loads(l) for l in open(sys.argv[2]) if l.strip()]
    json.dump(replay(cases, rows, int(sys.argv[4])), open(sys.argv[3], "w"))
