"""Developer tool: confirm a seeded defect produced by a sub-agent in its scratch worktree, archive it under
/verif/seeded/<id>/ and run the named checks against it (VERIF_REPO=<worktree>, so /repo is not touched)."""
import json
import os
import shutil
import subprocess
import sys
import time
from pathlib import Path

VERIF = Path("/verif")
RUN = Path(os.environ.get("VERIF_SNAPSHOT", "/verif"))    # frozen copy of /verif the checks are run from


def sh(cmd, cwd, timeout=1800, env=None):
    p = subprocess.run(cmd, cwd=cwd, shell=True, capture_output=True, text=True, timeout=timeout, env=env)
    return p.returncode, (p.stdout + p.stderr)


def main():
    sid, wt, prop = sys.argv[1], Path(sys.argv[2]), sys.argv[3]
    checks = [prop] + [c for c in sys.argv[4:] if c != prop]
    demo = next(wt.glob("demo_*.py"))
    out = {"id": sid, "property": prop, "worktree": str(wt), "ran": []}
    rc, o = sh("/venv/bin/python -m pytest -q -p no:cacheprovider --timeout=900 2>&1 | tail -2", wt)
    out["tests_with_change"] = o.strip().splitlines()[-1]
    rc1, o1 = sh(f"/venv/bin/python {demo.name}", wt, timeout=600)
    out["demo_with_change_exit"] = rc1
    out["demo_with_change_tail"] = o1.strip()[-400:]
    # (git stash is shared by all worktrees of a repository: revert / re-apply the diff instead)
    sh("git diff -- pyhms > .seed_patch && git apply -R .seed_patch", wt)
    rc2, o2 = sh(f"/venv/bin/python {demo.name}", wt, timeout=600)
    sh("git apply .seed_patch && rm -f .seed_patch", wt)
    out["demo_without_change_exit"] = rc2
    rc, diff = sh("git diff -- pyhms", wt)
    dest = VERIF / "seeded" / sid
    dest.mkdir(parents=True, exist_ok=True)
    (dest / "patch.diff").write_text(diff)
    shutil.copy(demo, dest / demo.name)
    if (wt / "MUTANT.md").exists():
        shutil.copy(wt / "MUTANT.md", dest / "MUTANT.md")
    confirmed = "passed" in out["tests_with_change"] and "failed" not in out["tests_with_change"] and rc1 != 0 and rc2 == 0
    out["confirmed"] = confirmed
    results = {}
    if confirmed:
        env = dict(os.environ, VERIF_REPO=str(wt), VERIF_KEEP_WORK="1")
        for c in checks:
            t0 = time.time()
            rc, o = sh(f"./check {c} --tier quick", RUN, timeout=3600, env=env)
            lines = [l for l in o.splitlines() if l.startswith(("VIOLATION", "  clause", "OK", "KNOWN", "MACHINERY"))]
            results[c] = {"exit": rc, "wall_s": round(time.time() - t0), "first_lines": [l[:260] for l in lines[:6]]}
            out["ran"].append(f"VERIF_REPO={wt} ./check {c} --tier quick -> exit {rc}")
    out["checks"] = results
    out["caught_by"] = [c for c, r in results.items() if r["exit"] == 1]
    (dest / "meta.json").write_text(json.dumps(out, indent=1))
    print(json.dumps({k: out[k] for k in ("id", "confirmed", "tests_with_change", "demo_with_change_exit", "demo_without_change_exit", "caught_by")}))
    for c, r in results.items():
        print(c, r["exit"], r["first_lines"][:3])


main()
