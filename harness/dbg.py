import json, sys
def show(path, name, lo, hi, maxd=8):
    res = json.load(open(path))
    r = [x for x in res if x['name'] == name][0]
    print(json.dumps(r['spec'])[:900])
    for e in r['events'][lo-1:hi]:
        sn = e.get('snap', {})
        print(f"#{e['i']} {e['e']} by={e.get('by')} d={e.get('d')} v={e.get('v')} mc={sn.get('mc')} tev={sn.get('tev')} lcalls={sn.get('lcalls')} refused={sn.get('refused')} b={[(b[0],b[1],len(b[2])) for b in e['b']]}")
        for d in sn.get('demes', [])[:maxd]:
            print(f"      {d['id']:8s} lvl={d['lvl']} par={d['par']!r} sa={d['sa']} {d['cls']} act={d['act']} hib={d['hib']} ev={d['ev']} me={d['me']} gens={d['gens']}" + (f" cen={d['cen']} ngen={d['ngen']} pn={d['pn']} best={d['best']} new={[len(g) for g in d['new']]}" if 'cen' in d else ''))
        if e['e']=='sprout':
            print('      ret', [(p,[i[:2] for i in inds]) for p,inds in e['ret']], 'gen', e['gen'], 'used', e['used'], 'atoms', e['atoms'])
if __name__ == '__main__':
    show(sys.argv[1], sys.argv[2], int(sys.argv[3]), int(sys.argv[4]))
