"""Trace recorder: pass-through wrappers around the user-supplied objective, global / local stop conditions
and sprout mechanism (all public API, no repository hook), plus a read-only projection of the tree.

The recorder never guesses state: it logs what it sees (who called, with what, what the tree reports) and a
handful of atoms computed independently of pyhms (inbox, truth, centroid-is-mean, far).  The TLA+ trace
specification (spec/HMSTrace.tla) decides.
"""
from __future__ import annotations

import hashlib
import json
import math
import os
import random
import re
import sys
import tempfile

import numpy as np

from pyhms.demes.abstract_deme import AbstractDeme
from pyhms.sprout.sprout_mechanisms import SproutMechanism
from pyhms.stop_conditions import GlobalStopCondition, LocalStopCondition

from . import objectives

ENGINE_OF_CLASS = {"EADeme": "SEA", "DEDeme": "DE", "SHADEDeme": "SHADE", "CMADeme": "CMA", "LocalDeme": "LOCAL",
                   "LHSDeme": "LHS", "SobolDeme": "SOBOL"}


class TooManyConsults(RuntimeError):
    """Raised by the GSC wrapper when a run exceeds its consult cap (a stalled run is reported, not hung)."""


def parse_id(s: str):
    """'root' -> [], '3' -> [3], '3/1' -> [3,1]; anything else -> None (reported as malformed)."""
    if s == "root":
        return []
    try:
        parts = [int(p) for p in s.split("/")]
    except (ValueError, AttributeError):
        return None
    if any(p < 0 for p in parts) or "/".join(str(p) for p in parts) != s:
        return None
    return parts


def _key(x) -> bytes:
    return (np.asarray(x, dtype=np.float64) + 0.0).tobytes()


def _caller_deme(depth: int = 2):
    """nearest deme frame on the stack, and whether that deme is still under construction"""
    f = sys._getframe(depth)
    while f is not None:
        s = f.f_locals.get("self")
        if isinstance(s, AbstractDeme):
            g = f
            init = False
            while g is not None and not init:
                if g.f_locals.get("self") is s and g.f_code.co_name == "__init__":
                    init = True
                g = g.f_back
            return s, init
        f = f.f_back
    return None, False


class Recorder:
    def __init__(self, fn: str, bounds, maximize: bool, max_consults: int = 4000):
        self.fn = fn
        self.fns = None                         # per-level objectives (multi-fidelity configurations), else None
        self.bounds = np.asarray(bounds, dtype=np.float64)
        self.maximize = maximize
        self.events: list[dict] = []
        self.gids: dict[bytes, int] = {}
        self.good: set = set()          # every goodness value seen (for dense ranks)
        self.batches: list = []         # since the last event: [deme_id_str, level, [call,...]]
        self.level_calls: dict[int, int] = {}
        self.refused = 0
        self.consults = 0
        self.max_consults = max_consults
        self.prev_ngen: dict[str, int] = {}     # per deme: generations already logged (full snapshots)
        self.cutoffs: list = []                 # RefusalProbe instances
        self.precision = None                   # PrecisionCutoffProblem, if any (atom `hit`)
        self.extra: dict = {}
        self.reports = False                    # C20: probe the reporting / query accessors at every loop-head boundary
        self.dump_at = None                     # C19: snapshot + restore at this metaepoch boundary
        self.dumped = False
        self.loaded_runs: list = []             # traces of continued loaded trees
        self.shared = False                     # one problem object shared by all levels: no per-level streams
        self.tree = None                        # set by the runner right after construction
        self.pending_start = None               # configuration summary of a tree that the library's front end will build
        # C20 "looking at a tree does not change it": in look mode the wrappers never touch the tree except at the
        # loop-head boundaries of the look schedule ("all", or [period, phase]: metaepoch count % period == phase),
        # where every reporting / query accessor is read and its answers are logged
        self.look = None
        # where the tree is, for the role of a consult (see RecGSC)
        self.phase = "step"                     # "step": no sprouting round since the last boundary; "round": get_seeds returned
        self.boundary_mc = 0                    # metaepoch count at the last boundary consult
        self.post_seen = False                  # a post-metaepoch consult has been seen since the last boundary
        self.round_expected = 0                 # demes the tree will hold when the current round is complete
        self.round_mc = 0                       # metaepoch count when the current round began
        self.post_mc = 0                        # metaepoch count at the last consult after a metaepoch
        self.last_tree_verdict = False

    def reset_for_new_tree(self) -> None:
        """the same configuration objects (and so the same recorder) serve a second tree: forget the first tree's log"""
        self.events = []
        self.batches = []
        self.level_calls = {}
        self.refused = 0
        self.consults = 0
        self.prev_ngen = {}
        self.dumped = False
        self.loaded_runs = []
        self.phase, self.boundary_mc, self.post_seen, self.round_expected, self.last_tree_verdict = "step", 0, False, 0, False
        self.round_mc = 0
        self.post_mc = 0

    def __deepcopy__(self, memo):
        # SproutMechanism.get_seeds deep-copies candidates (individual -> problem -> objective -> recorder);
        # the recorder is an observer, not part of the copied value - except when the harness itself branches a run with
        # copy.deepcopy(tree) (do_dump, branch_copy): the copy of the tree gets its own copy of the recorder
        if not getattr(self, "_branching", False):
            return self
        import copy as _copy
        new = self.__class__.__new__(self.__class__)
        memo[id(self)] = new
        for k, v in self.__dict__.items():
            setattr(new, k, _copy.deepcopy(v, memo))
        new._branching = False
        return new

    # ------------------------------------------------------------------ atoms
    def gid(self, x) -> int:
        k = _key(x)
        g = self.gids.get(k)
        if g is None:
            g = len(self.gids) + 1
            self.gids[k] = g
        return g

    def inbox(self, x) -> int:
        x = np.asarray(x, dtype=np.float64)
        return int(x.shape == (len(self.bounds),) and bool(np.all(x >= self.bounds[:, 0]))
                   and bool(np.all(x <= self.bounds[:, 1])))

    def goodness(self, f) -> float:
        f = float(f)
        return -f if self.maximize else f

    def fn_of(self, level: int) -> str:
        return self.fns[level] if self.fns else self.fn

    def level_of(self, ind) -> int:
        """level whose objective an individual is evaluated with (the harness tags each level's FunctionProblem)"""
        p = getattr(ind, "problem", None)
        for _ in range(12):
            if p is None or hasattr(p, "_verif_level"):
                break
            p = getattr(p, "_inner", None)
        return int(getattr(p, "_verif_level", 0))

    def truth(self, x, level: int = 0) -> float:
        v = objectives.truth(self.fn_of(level), x, self.bounds, self.maximize)
        form = getattr(self, "ret_form", "py")
        if form == "f32":           # the user's function computes in single precision: that IS its value
            return float(np.float32(v))
        return v

    def ind(self, ind) -> list:
        """[gid, goodness(raw float, ranked later), inbox, tru] ; tru: 1 true fitness, 0 wrong, 2 cutoff sentinel"""
        f = ind.fitness
        if f is None or (isinstance(f, float) and math.isnan(f)):
            # NaN is the true fitness of a genome at which the objective is NaN (tru = 1); otherwise 3
            t = self.truth(ind.genome, self.level_of(ind))
            tru = 1 if (f is not None and isinstance(t, float) and math.isnan(t)) else 3
            return [self.gid(ind.genome), ("G", math.inf), self.inbox(ind.genome), tru]
        f = float(f)
        g = self.goodness(f)
        sentinel = math.isinf(f) and ((f < 0) == self.maximize)
        if sentinel and self.refused > 0:
            tru = 2                       # once a budget wrapper refuses, the worst infinity is the documented sentinel
        elif self.truth(ind.genome, self.level_of(ind)) == f:
            tru = 1                       # (an objective may itself return the worst infinity)
        elif sentinel:
            tru = 2
        else:
            tru = 0
        self.good.add(g)
        return [self.gid(ind.genome), ("G", g), self.inbox(ind.genome), tru]

    # ------------------------------------------------------------------ objective side
    def note_call(self, level: int, x, value: float) -> None:
        d, init = _caller_deme(3)
        did = d.id if d is not None else "?"
        phase = "init" if init else "run"
        g = self.goodness(value)
        self.good.add(g)
        call = [self.gid(x), ("G", g), self.inbox(x)]
        self.level_calls[level] = self.level_calls.get(level, 0) + 1
        if self.batches and self.batches[-1][0] == did and self.batches[-1][1] == level and self.batches[-1][3] == phase:
            self.batches[-1][2].append(call)
        else:
            self.batches.append([did, level, [call], phase])

    def take_batches(self) -> list:
        b, self.batches = self.batches, []
        return b

    # ------------------------------------------------------------------ projection
    def snap(self, tree, full: bool) -> dict:
        demes = []
        levels = []
        for lvl, level in enumerate(tree.levels):
            levels.append([d.id for d in level])
            for d in level:
                demes.append(self._deme(tree, d, lvl, full))
        s = {"mc": int(tree.metaepoch_count), "tev": int(tree.n_evaluations), "demes": demes, "levels": levels,
             "lcalls": ([] if self.shared else [self.level_calls.get(l, 0) for l in range(len(tree.levels))]),
             "refused": self.refused, "full": int(full),
             "hit": int(bool(self.precision.hit_precision)) if self.precision is not None else 0}
        if full:
            try:
                b = tree.best_individual
                s["best"] = self.ind(b)
            except ValueError:
                s["best"] = []
        return s

    def _deme(self, tree, d, lvl: int, full: bool) -> dict:
        hist = d._history
        parent = None
        for pl in tree.levels[:lvl]:
            for p in pl:
                if any(c is d for c in p.children):
                    parent = p if parent is None else "MANY"
        rec = {"id": d.id, "lvl": int(d.level), "lix": lvl,
               "par": (parent.id if isinstance(parent, AbstractDeme) else ("MANY" if parent == "MANY" else "")),
               "sa": int(d.started_at), "cls": d.__class__.__name__,
               # (hibernating = flagged while the option is on: a flag left over after the option was switched off on a
               # live tree suspends nobody)
               "act": int(bool(d.is_active)),
               "hib": int(bool(getattr(d, "_hibernating", False)) and bool(tree.config.options.get("hibernation", False))),
               "ev": int(d.n_evaluations), "me": int(d.metaepoch_count),
               "gens": [len(m) for m in hist], "kids": [c.id for c in d.children]}
        if full:
            flat = [g for m in hist for g in m]
            n = len(flat)
            pn = min(self.prev_ngen.get(d.id, 0), n)
            rec["ngen"] = n
            rec["pn"] = pn
            rec["hd"] = self._digest(flat)
            rec["hp"] = self._digest(flat[:pn])
            rec["new"] = [[self.ind(i) for i in g] for g in flat[pn:]]
            self.prev_ngen[d.id] = n
            bi = d.best_individual
            rec["best"] = self.ind(bi) if bi is not None else []
            rec["seed"] = self.ind(d._sprout_seed) if d._sprout_seed is not None else []
            cur = flat[-1] if flat else []
            rec["pop"] = len(cur)
            # spread of the current population in units in the last place (capped): a population that has collapsed to
            # float precision produces trials identical to their parents (no evaluation) - known finding KF-C18-converged
            if cur:
                G = np.array([i.genome for i in cur], dtype=np.float64)
                ulp = np.spacing(np.maximum(np.max(np.abs(G), axis=0), np.finfo(float).tiny))
                rec["spr"] = int(min(10 ** 6, float(np.max((np.max(G, axis=0) - np.min(G, axis=0)) / ulp))))
            else:
                rec["spr"] = 0
            c = d.centroid
            if not cur:
                rec["cen"] = int(c is None)
            else:
                m = np.mean([i.genome for i in cur], axis=0)
                scale = float(np.max(np.abs(self.bounds))) or 1.0
                rec["cen"] = int(c is not None and np.allclose(c, m, rtol=1e-12, atol=1e-12 * scale))
        return rec

    def _digest(self, gens) -> str:
        """digest of genomes and canonical goodness values (f minimising, -f maximising: negation is exact),
        so that a maximisation run and its mirrored minimisation twin have equal digests"""
        h = hashlib.sha1()
        sign = -1.0 if self.maximize else 1.0
        for g in gens:
            h.update(b"|")
            for i in g:
                h.update(_key(i.genome))
                f = i.fitness
                h.update((np.float64(np.nan if f is None else f) * sign + 0.0).tobytes())
        return h.hexdigest()[:12]

    # ------------------------------------------------------------------ C19 / C20 probes
    def state_digest(self, tree, with_rng: bool = False) -> str:
        """digest of everything observable about the tree (structure, flags, counters, full histories)"""
        h = hashlib.sha1()
        h.update(str(int(tree.metaepoch_count)).encode())
        for lvl, level in enumerate(tree.levels):
            h.update(b"L%d" % lvl)
            for d in level:
                h.update(repr((d.id, int(d.level), int(d.started_at), d.__class__.__name__, bool(d.is_active),
                               bool(getattr(d, "_hibernating", False)), int(d.n_evaluations), int(d.metaepoch_count),
                               [len(m) for m in d._history], [c.id for c in d.children])).encode())
                h.update(self._digest([g for m in d._history for g in m]).encode())
                if d._sprout_seed is not None:
                    h.update(_key(d._sprout_seed.genome))
        if with_rng:
            st = np.random.get_state()
            h.update(st[1].tobytes())
            h.update(repr(st[2:]).encode())
            h.update(repr(random.getstate()).encode())
        return h.hexdigest()[:16]

    _DEME_LINE = re.compile(r"^(?P<prefix>[^A-Za-z]*)(?P<cls>\w+) (?P<id>\S+)(?P<star> \*\*\*)? +f\(.*\) ~= (?P<fit>\S+)(?: sprout: \(.*\);)? evals: (?P<ev>\d+) ?(?P<new>\(new_deme\))?\s*$")

    def parse_report(self, summary: str, treetxt: str) -> dict:
        out = {"ok": 1, "levels": [], "lines": []}
        lines = summary.split("\n")
        try:
            cur = out            # header first, then one section per "Level k."
            for ln in lines:
                if ln.startswith("Level "):
                    cur = {"empty": 0, "nev": -1, "nd": -1, "bestfit": ""}
                    out["levels"].append(cur)
                elif ln.startswith("No demes available"):
                    cur.update(empty=1, nev=0, nd=0)
                elif ln.startswith("Metaepoch count: "):
                    out["mc"] = int(ln.split(": ")[1])
                elif ln.startswith("Best fitness: "):
                    cur["bestfit"] = ln.split(": ")[1]
                elif ln.startswith("Number of evaluations: "):
                    cur["tev" if cur is out else "nev"] = int(ln.split(": ")[1])
                elif ln.startswith("Number of demes: "):
                    cur["ndemes" if cur is out else "nd"] = int(ln.split(": ")[1])
                elif self._DEME_LINE.match(ln):
                    break            # the tree part of the summary follows
            for k in ("mc", "tev", "ndemes", "bestfit"):
                if k not in out:
                    out["ok"] = 0
                    out.setdefault(k, -1 if k != "bestfit" else "")
            for ln in treetxt.split("\n"):
                if not ln.strip():
                    continue
                m = self._DEME_LINE.match(ln)
                if not m:
                    out["ok"] = 0
                    continue
                out["lines"].append({"id": m.group("id"), "cls": m.group("cls"), "star": int(bool(m.group("star"))),
                                     "ev": int(m.group("ev")), "fit": m.group("fit"), "new": int(bool(m.group("new")))})
        except (IndexError, ValueError):
            out["ok"] = 0
        return out

    def emit_report(self, tree) -> None:
        """C20: call every reporting / query accessor twice; log parsed reports, purity and idempotence atoms"""
        ncalls0 = sum(self.level_calls.values())
        d0 = self.state_digest(tree, with_rng=True)

        def guarded(f):
            try:
                return f()
            except Exception as ex:  # noqa: BLE001   (an accessor that raises is recorded as its answer)
                return "EXC " + type(ex).__name__

        def answers():
            a = {"summary": tree.summary(), "tree": tree.tree()}
            bi = tree.best_individual
            a["best"] = (_key(bi.genome), float(bi.fitness))
            a["all"] = guarded(lambda: [(_key(i.genome), float(i.fitness)) for i in tree.all_individuals])
            a["r5s"] = guarded(lambda: [(_key(i.genome), float(i.fitness)) for i in tree.r5s_solutions])
            a["tree_misc"] = guarded(lambda: (tree.height, tree.root.id, [d.id for d in tree.leaves], [d.id for _, d in tree.active_demes],
                                              [d.id for _, d in tree.active_non_leaves], [[d.id for d in lv] for lv in tree.levels],
                                              int(tree.metaepoch_count), int(tree.n_evaluations)))
            a["best_leaf"] = guarded(lambda: (lambda b: (_key(b.genome), float(b.fitness)))(tree.best_leaf_individual))
            if getattr(self, "visuals", False) and int(tree.metaepoch_count) in (2, 4, 5):
                # the graphical reports (documented on DemeTree): a diagram of the deme tree and an animation of the run,
                # rendered to a scratch file - looking at a tree this way must not change it either
                a["visual"] = guarded(lambda: self._visual_reports(tree))
            a["demes"] = []
            for _, d in tree.all_demes:
                a["demes"].append((d.id,
                                   guarded(lambda: (lambda b: None if b is None else (_key(b.genome), float(b.fitness)))(d.best_individual)),
                                   guarded(lambda: (lambda c: None if c is None else np.asarray(c).tobytes())(d.centroid)),
                                   guarded(lambda: sorted(d.best_fitness_by_metaepoch.items())),
                                   d.n_evaluations, d.metaepoch_count, d.is_active,
                                   guarded(lambda: (lambda b: None if b is None else (_key(b.genome), float(b.fitness)))(d.best_current_individual)),
                                   guarded(lambda: len(d.all_individuals)), guarded(lambda: [len(g) for g in d.history]),
                                   guarded(lambda: len(d.current_population)), guarded(lambda: (d.name, str(d), d.level, d.started_at)),
                                   guarded(lambda: d.iterations_count_since_last_sprout),
                                   guarded(lambda: (lambda m: None if m is None else np.asarray(m).tobytes())(d.mean)),
                                   guarded(lambda: [c.id for c in d.children])))
            return a
        try:
            a1 = answers()
            a2 = answers()
            err = ""
        except Exception as ex:  # noqa: BLE001
            a1, a2, err = None, None, repr(ex)[:200]
        d1 = self.state_digest(tree, with_rng=True)
        ev = {"e": "report", "snap": self.snap(tree, full=False), "err": err,
              "pure": int(d0 == d1), "nocalls": int(sum(self.level_calls.values()) == ncalls0),
              "same": int(a1 is not None and repr(a1) == repr(a2))}
        if a1 is not None:
            rep = self.parse_report(a1["summary"], a1["tree"])
            bi = tree.best_individual
            try:        # the printed best fitness agrees with the tree's best up to the printed precision
                shown = float(rep.get("bestfit"))
                rep["bestfit_ok"] = int(shown == bi.fitness or abs(shown - bi.fitness) <= 1e-3 * max(abs(bi.fitness), abs(shown)))
            except (TypeError, ValueError):
                rep["bestfit_ok"] = 0
            rep["intree"] = int(a1["tree"] in a1["summary"])
            # which demes carry the global best fitness (ranks are not available for report text: compare floats)
            rep["isbest"] = [[d.id, int(d.best_individual is not None and d.best_individual.fitness == bi.fitness)]
                             for _, d in tree.all_demes]
            rep["bestzero"] = int(bi.fitness == 0.0)
            ev["rep"] = rep
        else:
            ev["rep"] = {"ok": 0, "levels": [], "lines": [], "mc": -1, "tev": -1, "ndemes": -1, "bestfit_ok": 0, "intree": 0,
                         "isbest": [], "bestzero": 0}
        self.emit(ev)

    def _visual_reports(self, tree):
        import matplotlib
        matplotlib.use("Agg")
        out = [tree.tree_diagram().source.count("->")]
        fd, path = tempfile.mkstemp(suffix=".gif", dir=os.environ.get("VERIF_SCRATCH") or None)
        os.close(fd)
        try:
            tree.animate(path)
            out.append(int(os.path.getsize(path) > 0))
        finally:
            if os.path.exists(path):
                os.unlink(path)
            import matplotlib.pyplot as plt
            plt.close("all")
        return out

    def do_dump(self, tree, path=None) -> None:
        """C19: pickle_dump / pickle_load at this boundary; the loaded tree is run to its end under its own recorder copy.
        With `path` the snapshot goes to that file (kept: the caller overwrites it with a later snapshot of the same tree)."""
        from pyhms.tree import DemeTree
        self.dumped = True
        keep = path is not None
        if path is None:
            fd, path = tempfile.mkstemp(suffix=".pkl", dir=os.environ.get("VERIF_SCRATCH") or None)
            os.close(fd)
        ev = {"e": "dump", "snap": self.snap(tree, full=False), "err": ""}
        try:
            before = self.state_digest(tree, with_rng=True)
            proj_before = self.state_digest(tree)
            summary_before = tree.summary()
            inner = getattr(tree._gsc, "inner", tree._gsc)
            verdict_state = getattr(inner, "__dict__", {}).copy()
            tree.pickle_dump(path)
            ev["stutter"] = int(self.state_digest(tree, with_rng=True) == before)
            loaded = DemeTree.pickle_load(path)
            rec2 = loaded._gsc.rec
            ev["loadeq"] = int(rec2.state_digest(loaded) == proj_before)
            ev["summarysame"] = int(loaded.summary() == summary_before)
            # the stop-condition verdict of the restored tree (scripted conditions are stateful: evaluate on copies)
            import copy as _copy
            v_live = bool(_copy.deepcopy(inner)(tree))
            v_load = bool(_copy.deepcopy(getattr(loaded._gsc, "inner", loaded._gsc))(loaded))
            ev["verdictsame"] = int(v_live == v_load)
            ev["livestill"] = int(self.state_digest(tree, with_rng=True) == before)
            if getattr(self, "dump_subprocess", False):
                # ... and the snapshot restored in a FRESH interpreter (the usual reason to take one), run on to its end there
                import subprocess
                import sys as _sys
                p = subprocess.run([_sys.executable, "-W", "ignore", "-m", "harness.loadrun", path], capture_output=True, text=True,
                                   timeout=900, cwd=os.path.dirname(os.path.dirname(os.path.abspath(__file__))))
                if p.returncode != 0:
                    ev["err"] = "restoring / continuing the snapshot in a fresh interpreter failed: " + p.stderr.strip().splitlines()[-1][:200]
                else:
                    out = json.loads(p.stdout)
                    ev["loadeq_sub"] = int(out["digest"] == proj_before)
                    if not ev["loadeq_sub"]:
                        ev["loadeq"] = 0
                    self.loaded_runs.append({"status": out["status"], "events": out["events"], "dump_event": out["dump_event"]})
            # continue the loaded tree; the global generators are restored afterwards so the live run is not perturbed
            st_np, st_py = np.random.get_state(), random.getstate()
            try:
                rec2.dump_event_index = len(rec2.events)
                loaded.run()
                rec2.emit({"e": "end", "snap": rec2.snap(loaded, full=True)})
                status = "ok"
            except TooManyConsults:
                rec2.emit({"e": "abort", "why": "stalled", "snap": rec2.snap(loaded, full=True)})
                status = "stalled"
            except Exception as ex:  # noqa: BLE001
                rec2.events.append({"e": "crash", "b": [], "why": repr(ex)[:200]})
                status = "crash"
            finally:
                np.random.set_state(st_np)
                random.setstate(st_py)
            self.loaded_runs.append({"status": status, "events": rec2.finish(), "dump_event": rec2.dump_event_index})
            if getattr(self, "branch_copy", False):
                # an in-memory checkpoint: copy.deepcopy(tree), the copy is run to its end under its own (copied) recorder;
                # it is a tree like any other, and running it must not touch the live tree
                self._branching = True
                try:
                    twin = _copy.deepcopy(tree)
                finally:
                    self._branching = False
                rec3 = twin._gsc.rec
                if rec3 is self or rec3.tree is not twin:
                    raise RuntimeError("harness: the deep copy of the tree did not get its own recorder")
                ev["copyeq"] = int(rec3.state_digest(twin) == proj_before)
                st_np, st_py = np.random.get_state(), random.getstate()
                try:
                    rec3.dump_event_index = len(rec3.events)
                    twin.run()
                    rec3.emit({"e": "end", "snap": rec3.snap(twin, full=True)})
                    status3 = "ok"
                except TooManyConsults:
                    rec3.emit({"e": "abort", "why": "stalled", "snap": rec3.snap(twin, full=True)})
                    status3 = "stalled"
                except Exception as ex:  # noqa: BLE001
                    rec3.events.append({"e": "crash", "b": [], "why": repr(ex)[:200]})
                    status3 = "crash"
                finally:
                    np.random.set_state(st_np)
                    random.setstate(st_py)
                self.loaded_runs.append({"status": status3, "events": rec3.finish(), "dump_event": rec3.dump_event_index, "kind": "copied"})
                ev["copystill"] = int(self.state_digest(tree, with_rng=True) == before)     # (informational)
        except Exception as ex:  # noqa: BLE001
            ev["err"] = repr(ex)[:300]
            for k in ("stutter", "loadeq", "summarysame", "verdictsame", "livestill"):
                ev.setdefault(k, 0)
        finally:
            if os.path.exists(path) and not keep:
                os.unlink(path)
        self.emit(ev)

    def emit(self, ev: dict) -> None:
        ev["b"] = self.take_batches()
        self.events.append(ev)

    def tree_role(self, tree) -> str:
        """role of a consult of the global condition made by the tree itself (see RecGSC)"""
        mc = int(tree.metaepoch_count)
        if self.phase == "round" and mc != self.round_mc:
            # a new metaepoch has begun since the round (caller-driven stepping: no loop-head consult in between)
            self.phase, self.post_seen, self.boundary_mc = "step", False, self.round_mc
        if self.phase == "step":
            return "run" if (mc == self.boundary_mc or (self.post_seen and mc == self.post_mc)) else "step"
        ndemes = sum(len(lv) for lv in tree.levels)
        return "run" if (ndemes >= self.round_expected or self.last_tree_verdict) else "other"

    def after_consult(self, by: str, mc: int, v: bool) -> None:
        if by == "run":
            self.phase, self.boundary_mc, self.post_seen = "step", mc, False
        elif by == "step":
            self.post_seen, self.post_mc = True, mc
        if by != "deme":
            self.last_tree_verdict = v

    def note_round(self, tree, ret) -> None:
        self.phase = "round"
        self.round_mc = int(tree.metaepoch_count)
        self.round_expected = sum(len(lv) for lv in tree.levels) + sum(len(c.individuals) for c in ret.values())

    def look_due(self, mc: int) -> bool:
        return self.look == "all" or (isinstance(self.look, (list, tuple)) and mc % int(self.look[0]) == int(self.look[1]))

    def emit_look(self, tree, kind: str = "look") -> None:
        """answers of the public reporting / query accessors at this moment, as digests (values, not ids: the two
        runs of a pair keep separate recorders)"""
        def dg(*parts) -> str:
            h = hashlib.sha1()
            for q in parts:
                h.update(q if isinstance(q, bytes) else repr(q).encode())
                h.update(b"|")
            return h.hexdigest()[:12]

        def guarded(f):
            try:
                return f()
            except Exception as ex:  # noqa: BLE001
                return "EXC " + type(ex).__name__

        def indd(i):
            return "" if i is None else dg(_key(i.genome), float(i.fitness))
        demes = []
        for _, d in tree.all_demes:
            demes.append([d.id, int(bool(d.is_active)), int(bool(getattr(d, "_hibernating", False))), int(d.n_evaluations),
                          int(d.metaepoch_count), guarded(lambda: indd(d.best_individual)),
                          guarded(lambda: (lambda c: "" if c is None else dg(np.asarray(c).tobytes()))(d.centroid)),
                          guarded(lambda: dg(sorted(d.best_fitness_by_metaepoch.items()))),
                          self._digest([g for m in d._history for g in m])])
        ev = {"e": kind, "mc": int(tree.metaepoch_count), "tev": int(tree.n_evaluations),
              "best": guarded(lambda: indd(tree.best_individual)),
              "summary": guarded(lambda: dg(tree.summary())), "tree": guarded(lambda: dg(tree.tree())),
              "all": guarded(lambda: dg([(_key(i.genome), float(i.fitness)) for i in tree.all_individuals])),
              "r5s": guarded(lambda: dg([(_key(i.genome), float(i.fitness)) for i in tree.r5s_solutions])),
              "demes": demes}
        self.take_batches()
        ev["b"] = []
        self.events.append(ev)

    # ------------------------------------------------------------------ output
    def finish(self) -> list[dict]:
        """Replace raw goodness values by dense ranks (0 = best)."""
        vals = sorted(v for v in self.good if not math.isnan(v))
        rank = {v: i for i, v in enumerate(vals)}
        worst = len(vals)

        def conv(o):
            if isinstance(o, tuple) and len(o) == 2 and o[0] == "G":
                v = o[1]
                return rank.get(v, worst) if not math.isnan(v) else worst + 1
            if isinstance(o, list):
                return [conv(x) for x in o]
            if isinstance(o, dict):
                return {k: conv(v) for k, v in o.items()}
            return o
        return [conv(e) for e in self.events]


class LevelObjective:
    """The user's objective for one level (one recorder stream per level)."""

    def __init__(self, rec: Recorder, level: int):
        self.rec = rec
        self.level = level

    def __call__(self, x, *a, **k):
        v = self.rec.truth(x, self.level)
        self.rec.note_call(self.level, x, v)
        form = getattr(self.rec, "ret_form", "py")
        if form == "f32":
            return np.float32(v)
        if form == "i64":           # an integer-valued objective (a count) returned as a numpy integer
            return np.int64(v) if float(v).is_integer() else v
        if form == "arr0":          # what np.where / np.squeeze / np.asarray leave behind: a 0-d array (a mutable object)
            return np.asarray(v, dtype=np.float64)
        if form == "np64":
            return np.float64(v)
        return v


class RecGSC(GlobalStopCondition):
    def __init__(self, rec: Recorder, inner):
        self.rec = rec
        self.inner = inner

    def __call__(self, tree) -> bool:
        rec = self.rec
        rec.consults += 1
        if rec.consults > rec.max_consults:
            raise TooManyConsults(f"more than {rec.max_consults} global stop condition consults")
        if rec.look is not None:
            f0 = sys._getframe(1)
            by0 = "deme" if isinstance(f0.f_locals.get("self"), AbstractDeme) else rec.tree_role(tree)
            if by0 == "run" and rec.look_due(int(tree.metaepoch_count)):
                rec.emit_look(tree)
            v0 = bool(self.inner(tree))
            rec.after_consult(by0, int(tree.metaepoch_count), v0)
            return v0
        if rec.pending_start is not None:
            # the tree was built and started inside the library's own front end (hms()): the first thing seen of it is
            # the consult at the head of run(), nothing has happened since its construction
            rec.tree = tree
            start, rec.pending_start = rec.pending_start, None
            rec.emit({"e": "start", "cfg": start, "snap": rec.snap(tree, full=True)})
        # Who is asking?  A deme (its frame is on the stack) or the tree.  The role of a consult by the tree is decided
        # from where the tree is - not from the name of the calling function, which a refactoring may change:
        #   "step"  the first consult by the tree after a metaepoch has begun (the post-metaepoch consult);
        #   "run"   a consult at a metaepoch boundary: before the first step, after a completed (or abandoned) sprouting
        #           round, or after a post-metaepoch consult that said TRUE (the loop head);
        #   "other" a consult in the middle of a sprouting round (children of the round still to be constructed).
        f = sys._getframe(1)
        by, d = "other", ""
        s = f.f_locals.get("self")
        mc = int(tree.metaepoch_count)
        ndemes = sum(len(lv) for lv in tree.levels)
        if isinstance(s, AbstractDeme):
            by, d = "deme", s.id
        else:
            by = rec.tree_role(tree)
        if by == "run":
            if getattr(rec, "hib_off_at", None) is not None and mc >= rec.hib_off_at:
                # the caller switches hibernation off on the live tree (the options dictionary is public and read live)
                rec.hib_off_at = None
                tree.config.options["hibernation"] = False
                rec.emit({"e": "sethib", "v": 0, "snap": rec.snap(tree, full=False)})
            if rec.reports:
                rec.emit_report(tree)
            if rec.dump_at is not None and not rec.dumped and int(tree.metaepoch_count) >= rec.dump_at:
                rec.do_dump(tree)
        v = bool(self.inner(tree))
        rec.emit({"e": "gsc", "by": by, "d": d, "v": v, "snap": rec.snap(tree, full=(by != "deme"))})
        rec.after_consult(by, mc, v)
        return v

    def __str__(self):
        return f"RecGSC({self.inner})"


class RecLSC(LocalStopCondition):
    def __init__(self, rec: Recorder, inner, level: int):
        self.rec = rec
        self.inner = inner
        self.level = level

    def __call__(self, deme) -> bool:
        if self.rec.look is not None:
            return bool(self.inner(deme))
        v = bool(self.inner(deme))
        self.rec.emit({"e": "lsc", "d": deme.id, "v": v, "snap": self.rec.snap(self.rec.tree, full=False)})
        return v


class RecSprout(SproutMechanism):
    """Pass-through around a real SproutMechanism."""

    def __init__(self, rec: Recorder, inner: SproutMechanism, atoms=None):
        self.rec = rec
        self.inner = inner
        self.atoms = atoms      # callable(tree, returned) -> dict of atoms (far, considered, ...)

    def __getattr__(self, name):
        if name in ("rec", "inner", "atoms"):
            raise AttributeError(name)
        return getattr(self.inner, name)

    def get_seeds(self, tree):
        rec = self.rec
        if rec.look is not None:
            ret0 = self.inner.get_seeds(tree)
            rec.note_round(tree, ret0)
            return ret0
        before = rec.snap(tree, full=True)
        pops = {}
        hists = {}
        cents = {}
        for lvl, level in enumerate(tree.levels):
            for d in level:
                cur = d.current_population
                pops[d.id] = {(rec.gid(i.genome)) for i in cur}
                hists[d.id] = {(rec.gid(i.genome)) for i in d.all_individuals}
                cents[d.id] = (np.mean([i.genome for i in cur], axis=0) if cur else None, bool(d.is_active), lvl)
        n_gen0 = len(self.inner._generated_deme_ids_to_candidates_history)
        ret = self.inner.get_seeds(tree)
        out = []
        for parent, cands in ret.items():
            inds = []
            for i in cands.individuals:
                g = rec.gid(i.genome)
                inds.append(rec.ind(i) + [int(g in pops.get(parent.id, ())), int(g in hists.get(parent.id, ()))])
            out.append([parent.id, inds])
        gen = self.inner._generated_deme_ids_to_candidates_history[n_gen0:]
        used = self.inner._used_deme_ids_to_candidates_history[n_gen0:]

        def ids(h, full):
            res = []
            for k, v in (h[-1].items() if h else []):
                if full:
                    res.append([k, [[rec.gid(i.genome), ("G", rec.goodness(i.fitness)),
                                     int(rec.gid(i.genome) in pops.get(k, ())), int(rec.gid(i.genome) in hists.get(k, ()))]
                                    for i in v.individuals]])
                    for i in v.individuals:
                        rec.good.add(rec.goodness(i.fitness))
                else:
                    res.append([k, [rec.gid(i.genome) for i in v.individuals]])
            return res
        rec.note_round(tree, ret)
        ev = {"e": "sprout", "snap": before, "ret": out, "gen": ids(gen, True), "used": ids(used, False)}
        if self.atoms is not None:
            ev["atoms"] = self.atoms(rec, tree, ret, cents)
        else:
            ev["atoms"] = {"far": []}
        rec.emit(ev)
        return ret
