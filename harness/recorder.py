"""Trace recorder: pass-through wrappers around the user-supplied objective, global / local stop conditions
and sprout mechanism (all public API, no repository hook), plus a read-only projection of the tree.

The recorder never guesses state: it logs what it sees (who called, with what, what the tree reports) and a
handful of atoms computed independently of pyhms (inbox, truth, centroid-is-mean, far).  The TLA+ trace
specification (spec/HMSTrace.tla) decides.
"""
from __future__ import annotations

import hashlib
import math
import sys

import numpy as np

from pyhms.demes.abstract_deme import AbstractDeme
from pyhms.sprout.sprout_mechanisms import SproutMechanism
from pyhms.stop_conditions import GlobalStopCondition, LocalStopCondition

from . import objectives

ENGINE_OF_CLASS = {"EADeme": "SEA", "DEDeme": "DE", "SHADEDeme": "SHADE", "CMADeme": "CMA", "LocalDeme": "LOCAL",
                   "LHSDeme": "LHS", "SobolDeme": "SOBOL"}


class TooManyConsults(RuntimeError):
    """Raised by the GSC wrapper when a run exceeds its consult cap (a stalled run is reported, not hung)."""


def parse_id(s: str):
    """'root' -> [], '3' -> [3], '3/1' -> [3,1]; anything else -> None (reported as malformed)."""
    if s == "root":
        return []
    try:
        parts = [int(p) for p in s.split("/")]
    except (ValueError, AttributeError):
        return None
    if any(p < 0 for p in parts) or "/".join(str(p) for p in parts) != s:
        return None
    return parts


def _key(x) -> bytes:
    return (np.asarray(x, dtype=np.float64) + 0.0).tobytes()


def _caller_deme(depth: int = 2):
    f = sys._getframe(depth)
    while f is not None:
        s = f.f_locals.get("self")
        if isinstance(s, AbstractDeme):
            return s
        f = f.f_back
    return None


class Recorder:
    def __init__(self, fn: str, bounds, maximize: bool, max_consults: int = 4000):
        self.fn = fn
        self.bounds = np.asarray(bounds, dtype=np.float64)
        self.maximize = maximize
        self.events: list[dict] = []
        self.gids: dict[bytes, int] = {}
        self.good: set = set()          # every goodness value seen (for dense ranks)
        self.batches: list = []         # since the last event: [deme_id_str, level, [call,...]]
        self.level_calls: dict[int, int] = {}
        self.refused = 0
        self.consults = 0
        self.max_consults = max_consults
        self.prev_ngen: dict[str, int] = {}     # per deme: generations already logged (full snapshots)
        self.cutoffs: list = []                 # RefusalProbe instances
        self.precision = None                   # PrecisionCutoffProblem, if any (atom `hit`)
        self.extra: dict = {}
        self.shared = False                     # one problem object shared by all levels: no per-level streams
        self.tree = None                        # set by the runner right after construction

    def __deepcopy__(self, memo):
        # SproutMechanism.get_seeds deep-copies candidates (individual -> problem -> objective -> recorder);
        # the recorder is an observer, not part of the copied value
        return self

    # ------------------------------------------------------------------ atoms
    def gid(self, x) -> int:
        k = _key(x)
        g = self.gids.get(k)
        if g is None:
            g = len(self.gids) + 1
            self.gids[k] = g
        return g

    def inbox(self, x) -> int:
        x = np.asarray(x, dtype=np.float64)
        return int(x.shape == (len(self.bounds),) and bool(np.all(x >= self.bounds[:, 0]))
                   and bool(np.all(x <= self.bounds[:, 1])))

    def goodness(self, f) -> float:
        f = float(f)
        return -f if self.maximize else f

    def truth(self, x) -> float:
        return objectives.truth(self.fn, x, self.bounds, self.maximize)

    def ind(self, ind) -> list:
        """[gid, goodness(raw float, ranked later), inbox, tru] ; tru: 1 true fitness, 0 wrong, 2 cutoff sentinel"""
        f = ind.fitness
        if f is None or (isinstance(f, float) and math.isnan(f)):
            return [self.gid(ind.genome), ("G", math.inf), self.inbox(ind.genome), 3]
        f = float(f)
        g = self.goodness(f)
        sentinel = math.isinf(f) and ((f < 0) == self.maximize)
        if sentinel:
            tru = 2
        else:
            tru = int(self.truth(ind.genome) == f)
        self.good.add(g)
        return [self.gid(ind.genome), ("G", g), self.inbox(ind.genome), tru]

    # ------------------------------------------------------------------ objective side
    def note_call(self, level: int, x, value: float) -> None:
        d = _caller_deme(3)
        did = d.id if d is not None else "?"
        g = self.goodness(value)
        self.good.add(g)
        call = [self.gid(x), ("G", g), self.inbox(x)]
        self.level_calls[level] = self.level_calls.get(level, 0) + 1
        if self.batches and self.batches[-1][0] == did and self.batches[-1][1] == level:
            self.batches[-1][2].append(call)
        else:
            self.batches.append([did, level, [call]])

    def take_batches(self) -> list:
        b, self.batches = self.batches, []
        return b

    # ------------------------------------------------------------------ projection
    def snap(self, tree, full: bool) -> dict:
        demes = []
        levels = []
        for lvl, level in enumerate(tree.levels):
            levels.append([d.id for d in level])
            for d in level:
                demes.append(self._deme(tree, d, lvl, full))
        s = {"mc": int(tree.metaepoch_count), "tev": int(tree.n_evaluations), "demes": demes, "levels": levels,
             "lcalls": ([] if self.shared else [self.level_calls.get(l, 0) for l in range(len(tree.levels))]),
             "refused": self.refused, "full": int(full),
             "hit": int(bool(self.precision.hit_precision)) if self.precision is not None else 0}
        if full:
            try:
                b = tree.best_individual
                s["best"] = self.ind(b)
            except ValueError:
                s["best"] = []
        return s

    def _deme(self, tree, d, lvl: int, full: bool) -> dict:
        hist = d._history
        parent = None
        for pl in tree.levels[:lvl]:
            for p in pl:
                if any(c is d for c in p.children):
                    parent = p if parent is None else "MANY"
        rec = {"id": d.id, "lvl": int(d.level), "lix": lvl,
               "par": (parent.id if isinstance(parent, AbstractDeme) else ("MANY" if parent == "MANY" else "")),
               "sa": int(d.started_at), "cls": d.__class__.__name__,
               "act": int(bool(d.is_active)), "hib": int(bool(getattr(d, "_hibernating", False))),
               "ev": int(d.n_evaluations), "me": int(d.metaepoch_count),
               "gens": [len(m) for m in hist], "kids": [c.id for c in d.children]}
        if full:
            flat = [g for m in hist for g in m]
            n = len(flat)
            pn = min(self.prev_ngen.get(d.id, 0), n)
            rec["ngen"] = n
            rec["pn"] = pn
            rec["hd"] = self._digest(flat)
            rec["hp"] = self._digest(flat[:pn])
            rec["new"] = [[self.ind(i) for i in g] for g in flat[pn:]]
            self.prev_ngen[d.id] = n
            bi = d.best_individual
            rec["best"] = self.ind(bi) if bi is not None else []
            rec["seed"] = self.ind(d._sprout_seed) if d._sprout_seed is not None else []
            cur = flat[-1] if flat else []
            rec["pop"] = len(cur)
            c = d.centroid
            if not cur:
                rec["cen"] = int(c is None)
            else:
                m = np.mean([i.genome for i in cur], axis=0)
                scale = float(np.max(np.abs(self.bounds))) or 1.0
                rec["cen"] = int(c is not None and np.allclose(c, m, rtol=1e-12, atol=1e-12 * scale))
        return rec

    def _digest(self, gens) -> str:
        """digest of genomes and canonical goodness values (f minimising, -f maximising: negation is exact),
        so that a maximisation run and its mirrored minimisation twin have equal digests"""
        h = hashlib.sha1()
        sign = -1.0 if self.maximize else 1.0
        for g in gens:
            h.update(b"|")
            for i in g:
                h.update(_key(i.genome))
                f = i.fitness
                h.update((np.float64(np.nan if f is None else f) * sign + 0.0).tobytes())
        return h.hexdigest()[:12]

    def emit(self, ev: dict) -> None:
        ev["b"] = self.take_batches()
        self.events.append(ev)

    # ------------------------------------------------------------------ output
    def finish(self) -> list[dict]:
        """Replace raw goodness values by dense ranks (0 = best)."""
        vals = sorted(v for v in self.good if not math.isnan(v))
        rank = {v: i for i, v in enumerate(vals)}
        worst = len(vals)

        def conv(o):
            if isinstance(o, tuple) and len(o) == 2 and o[0] == "G":
                v = o[1]
                return rank.get(v, worst) if not math.isnan(v) else worst + 1
            if isinstance(o, list):
                return [conv(x) for x in o]
            if isinstance(o, dict):
                return {k: conv(v) for k, v in o.items()}
            return o
        return [conv(e) for e in self.events]


class LevelObjective:
    """The user's objective for one level (one recorder stream per level)."""

    def __init__(self, rec: Recorder, level: int):
        self.rec = rec
        self.level = level

    def __call__(self, x, *a, **k):
        v = objectives.truth(self.rec.fn, x, self.rec.bounds, self.rec.maximize)
        self.rec.note_call(self.level, x, v)
        return v


class RecGSC(GlobalStopCondition):
    def __init__(self, rec: Recorder, inner):
        self.rec = rec
        self.inner = inner

    def __call__(self, tree) -> bool:
        rec = self.rec
        rec.consults += 1
        if rec.consults > rec.max_consults:
            raise TooManyConsults(f"more than {rec.max_consults} global stop condition consults")
        f = sys._getframe(1)
        by, d = "other", ""
        name = f.f_code.co_name
        s = f.f_locals.get("self")
        if isinstance(s, AbstractDeme):
            by, d = "deme", s.id
        elif name == "run":
            by = "run"
        elif name == "run_step":
            by = "step"
        v = bool(self.inner(tree))
        rec.emit({"e": "gsc", "by": by, "d": d, "v": v, "snap": rec.snap(tree, full=(by != "deme"))})
        return v

    def __str__(self):
        return f"RecGSC({self.inner})"


class RecLSC(LocalStopCondition):
    def __init__(self, rec: Recorder, inner, level: int):
        self.rec = rec
        self.inner = inner
        self.level = level

    def __call__(self, deme) -> bool:
        v = bool(self.inner(deme))
        self.rec.emit({"e": "lsc", "d": deme.id, "v": v, "snap": self.rec.snap(self.rec.tree, full=False)})
        return v


class RecSprout(SproutMechanism):
    """Pass-through around a real SproutMechanism."""

    def __init__(self, rec: Recorder, inner: SproutMechanism, atoms=None):
        self.rec = rec
        self.inner = inner
        self.atoms = atoms      # callable(tree, returned) -> dict of atoms (far, considered, ...)

    def __getattr__(self, name):
        if name in ("rec", "inner", "atoms"):
            raise AttributeError(name)
        return getattr(self.inner, name)

    def get_seeds(self, tree):
        rec = self.rec
        before = rec.snap(tree, full=True)
        pops = {}
        hists = {}
        cents = {}
        for lvl, level in enumerate(tree.levels):
            for d in level:
                cur = d.current_population
                pops[d.id] = {(rec.gid(i.genome)) for i in cur}
                hists[d.id] = {(rec.gid(i.genome)) for i in d.all_individuals}
                cents[d.id] = (np.mean([i.genome for i in cur], axis=0) if cur else None, bool(d.is_active), lvl)
        n_gen0 = len(self.inner._generated_deme_ids_to_candidates_history)
        ret = self.inner.get_seeds(tree)
        out = []
        for parent, cands in ret.items():
            inds = []
            for i in cands.individuals:
                g = rec.gid(i.genome)
                inds.append(rec.ind(i) + [int(g in pops.get(parent.id, ())), int(g in hists.get(parent.id, ()))])
            out.append([parent.id, inds])
        gen = self.inner._generated_deme_ids_to_candidates_history[n_gen0:]
        used = self.inner._used_deme_ids_to_candidates_history[n_gen0:]

        def ids(h, full):
            res = []
            for k, v in (h[-1].items() if h else []):
                if full:
                    res.append([k, [[rec.gid(i.genome), ("G", rec.goodness(i.fitness)),
                                     int(rec.gid(i.genome) in pops.get(k, ())), int(rec.gid(i.genome) in hists.get(k, ()))]
                                    for i in v.individuals]])
                    for i in v.individuals:
                        rec.good.add(rec.goodness(i.fitness))
                else:
                    res.append([k, [rec.gid(i.genome) for i in v.individuals]])
            return res
        ev = {"e": "sprout", "snap": before, "ret": out, "gen": ids(gen, True), "used": ids(used, False)}
        if self.atoms is not None:
            ev["atoms"] = self.atoms(rec, tree, ret, cents)
        else:
            ev["atoms"] = {"far": []}
        rec.emit(ev)
        return ret
