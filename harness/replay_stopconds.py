"""Growth (beyond the listed properties): replay the StopConds.tla table on the shipped stop conditions."""
from __future__ import annotations

import json
import sys

from pyhms.stop_conditions import AllChildrenStopped, FitnessSteadiness, NoActiveNonrootDemes
from pyhms.stop_conditions.gsc import FitnessEvalLimitReached, WeightingStrategy


class Ind:
    def __init__(self, f):
        self.fitness = f


class FakeDeme:
    def __init__(self, hist=None, active=True, started_at=0, me=0, level=0, ev=0, kids=()):
        self._history = hist if hist is not None else [[[]]] * (me + 1)
        self.is_active = active
        self.started_at = started_at
        self._level = level
        self.level = level
        self.n_evaluations = ev
        self.children = list(kids)

    @property
    def metaepoch_count(self):
        return len(self._history) - 1


class FakeCfg:
    def __init__(self, n):
        self.levels = [None] * n


class FakeTree:
    def __init__(self, levels, mc=0):
        self.levels = levels
        self.config = FakeCfg(len(levels))
        self.metaepoch_count = mc
        self.height = len(levels)

    @property
    def all_demes(self):
        return [(i, d) for i, lv in enumerate(self.levels) for d in lv]


def main(table_path, out_path):
    viol, n_eval, distinct, samples = [], 0, 0, []

    def bad(clause, sig, det):
        if len(viol) < 300:
            viol.append({"clause": clause, "signature": sig, "detail": det})
    for li, line in enumerate(open(table_path)):
        if not line.strip():
            continue
        c = json.loads(line)
        distinct += 1
        fam = c["fam"]
        if fam == "steady":
            # exact concretisations: fitness = off + scale * value (powers of two), dev = scale * p / q
            for off, scale in ((0.0, 1.0), (-1.0, 1.0), (1024.0, 0.25), (0.0, -1.0)):
                n_eval += 1
                hist = [[[Ind(off + scale * f)] for f in me] for me in c["hist"]]
                dev = abs(scale) * c["p"] / c["q"]
                if scale < 0:
                    continue      # mean-minus-minimum is not mirror-symmetric (documented: raw values); crash check only
                got = bool(FitnessSteadiness(dev, c["n"])(FakeDeme(hist)))
                if got != c["v"]:
                    bad("StopConds_FitnessSteadiness", f"hist={c['hist']} n={c['n']} dev={c['p']}/{c['q']} off={off} scale={scale}",
                        {"got": got, "expected": c["v"]})
        elif fam == "evals":
            n_eval += 1
            w = {"equal": WeightingStrategy.EQUAL, "root": WeightingStrategy.ROOT}.get(c["s"], list(c["w"]))
            levels = [[FakeDeme(level=l, ev=e)] for l, e in enumerate(c["ev"])]
            # evaluations of a level spread over two demes as well
            levels2 = [[FakeDeme(level=l, ev=e // 2), FakeDeme(level=l, ev=e - e // 2)] for l, e in enumerate(c["ev"])]
            for lv in (levels, levels2):
                cond = FitnessEvalLimitReached(c["lim"], w)
                got = [bool(cond(FakeTree(lv))), bool(cond(FakeTree(lv)))]      # asked twice (weights are materialised on first use)
                if got != [c["v"], c["v"]]:
                    bad("StopConds_FitnessEvalLimitReached", f"evals={c['ev']} strategy={c['s']} w={c['w']} limit={c['lim']}",
                        {"got": got, "expected": c["v"]})
            if c["s"] == "equal":
                got = bool(FitnessEvalLimitReached(c["lim"], None)(FakeTree(levels)))
                if got != c["v"]:
                    bad("StopConds_FitnessEvalLimitReached", f"evals={c['ev']} strategy=None limit={c['lim']}", {"got": got, "expected": c["v"]})
        elif fam == "nonroot":
            n_eval += 1
            kids = [FakeDeme(active=bool(k[0]), started_at=int(k[1]), me=int(k[2]), level=1) for k in c["kids"]]
            root = FakeDeme(level=0, kids=kids)
            tree = FakeTree([[root], kids], mc=c["mc"])
            got = bool(NoActiveNonrootDemes(c["k"])(tree))
            if got != c["v"]:
                bad("StopConds_NoActiveNonrootDemes", f"kids={c['kids']} mc={c['mc']} k={c['k']}", {"got": got, "expected": c["v"]})
            got2 = bool(AllChildrenStopped()(root))
            if got2 != c["allstopped"]:
                bad("StopConds_AllChildrenStopped", f"kids={c['kids']}", {"got": got2, "expected": c["allstopped"]})
        if len(samples) < 4 and li % 1013 == 7:
            samples.append(c)
    json.dump({"evaluations": n_eval, "distinct": distinct, "nontrivial": distinct, "violations": viol, "samples": samples},
              open(out_path, "w"))


if __name__ == "__main__":
    main(sys.argv[1], sys.argv[2])
