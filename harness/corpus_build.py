"""Subprocess entry: build the corpus in <dir>: run all specs on the real library, validate the traces with
HMSTrace.tla in chunks, write summary.json (per-trace clause violations + statistics) and traces.json.gz."""
from __future__ import annotations

import gzip
import json
import sys
import time
from pathlib import Path

from .common import MachineryError
from .corpus import gen_specs, run_specs
from .mod_corpus import CHUNK, _stats
from .tracecheck import chunks, validate


def main(d: str, n: str, seed: str, tier: str) -> None:
    d = Path(d).resolve()
    t0 = time.time()
    specs = gen_specs(int(seed), int(n), tier)
    try:
        from .scenarios import scenario_specs
        specs += scenario_specs(tier, d)
    except ImportError:
        pass
    runs = run_specs(specs)
    t_run = time.time() - t0
    bad = [r for r in runs if r["status"] == "builderror"]
    if bad:
        raise MachineryError(f"{len(bad)} specs could not be built: {bad[0]['name']}: {bad[0]['info']}")
    # continued runs of restored snapshots (C19) are traces of their own
    for r in list(runs):
        for lr in r.get("loaded", []):
            runs.append(lr)
    traced = [r for r in runs if r["events"]]
    results = []
    states = 0
    t1 = time.time()
    for ci, part in enumerate(chunks(traced, CHUNK)):
        v = validate(part, d / "tlc", tag=f"chunk{ci}")
        states += v["states"]
        for r, t in zip(v["results"], part):
            assert r["name"] == t["name"], (r["name"], t["name"])
            results.append({"name": t["name"], "n": r["n"], "viol": r["viol"], "dump_event": t.get("dump_event")})
        (d / "tlc" / f"chunk{ci}.json").unlink()
    t_tlc = time.time() - t1
    with gzip.open(d / "traces.json.gz", "wt") as f:
        json.dump([{"name": r["name"], "status": r["status"], "spec": r["spec"], "events": r["events"]} for r in runs], f)
    summary = {"n_specs": len(specs), "n_traces": len(traced), "tlc_states": states,
               "t_run_s": round(t_run, 1), "t_tlc_s": round(t_tlc, 1),
               "status": {r["name"]: r["status"] for r in runs},
               "notrace": [{"name": r["name"], "status": r["status"], "info": r["info"][-600:]} for r in runs if not r["events"]],
               "results": results, "stats": _stats(runs),
               "sample": {"spec": traced[0]["spec"], "events_head": [
                   {k: (v if k != "snap" else {"mc": v["mc"], "tev": v["tev"], "demes": len(v["demes"])}) for k, v in e.items() if k != "b"}
                   for e in traced[0]["events"][:6]]}}
    (d / "summary.json").write_text(json.dumps(summary))


if __name__ == "__main__":
    main(*sys.argv[1:5])
