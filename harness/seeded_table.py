"""Developer tool: render DESIGN.md section 10.6 from /verif/seeded/*/meta.json."""
import json
import re
from pathlib import Path

V = Path("/verif")
rows = []
for d in sorted((V / "seeded").iterdir()):
    m = d / "meta.json"
    if not m.exists():
        continue
    j = json.loads(m.read_text())
    if 'property' not in j:
        continue
    needs = j.get("needs", "")
    what = j.get("what", "")
    clauses = []
    for c, r in j.get("checks", {}).items():
        for l in r.get("first_lines", []):
            mm = re.search(r"clause=(\S+)", l)
            if mm and mm.group(1) not in clauses:
                clauses.append(mm.group(1))
    caught = ", ".join(j.get("caught_by", [])) or "—"
    ran = ", ".join(f"{c}:{r['exit']}" for c, r in j.get("checks", {}).items())
    hist = j.get("history", "")
    rows.append(f"| {j['id']} | {j['property']} | {what} | {needs} | {caught} ({'; '.join(clauses[:3])}) | {ran} | {hist} |")
table = ("| id | property | seeded change | needs, to manifest | caught by (first clauses) | checks run: exit | history |\n|---|---|---|---|---|---|---|\n"
         + "\n".join(rows))
p = V / "DESIGN.md"
s = p.read_text()
start = s.index("SEEDED_TABLE_PLACEHOLDER") if "SEEDED_TABLE_PLACEHOLDER" in s else None
if start is not None:
    s = s.replace("SEEDED_TABLE_PLACEHOLDER", "<!-- seeded-table-begin -->\n" + table + "\n<!-- seeded-table-end -->")
else:
    s = re.sub(r"<!-- seeded-table-begin -->.*?<!-- seeded-table-end -->", "<!-- seeded-table-begin -->\n" + table + "\n<!-- seeded-table-end -->", s, flags=re.S)
p.write_text(s)
print(table)
