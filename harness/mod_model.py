"""Stage: the design model (HMSModel.tla / MC_HMS.tla) checked exhaustively by TLC."""
from __future__ import annotations

import re
from pathlib import Path

from .common import MachineryError, run_tlc
from .stages import stage

ACTIONS = ["ChildInit", "LoopCheck", "Begin", "Iter", "GenGsc", "Lsc", "LocalRun", "PostGsc", "Sprout"]

# Non-vacuity witnesses (HMSModel.tla W_*): each names a state some clause needs as its antecedent; TLC must find the
# invariant VIOLATED (= the state is reachable in the bounded model).  One short breadth-first run each.
WITNESSES = {
    "W_BudgetNeverRefuses": "an evaluation budget runs out (C03_BudgetHard / C03_TotalEqualsCalls antecedent)",
    "W_BudgetNeverCutsABatch": "a budget ends inside a batch of evaluations",
    "W_NoGscWithDemesQueued": "the global condition first observed true by a deme while other demes are still queued (C05 wind-down)",
    "W_NoGscAtLoopHeadFirst": "the global condition true at the very first loop-head consult (zero metaepochs)",
    "W_LevelNeverFull": "a level reaches its limit (C08)",
    "W_NoSlotRefilled": "a level has held more demes over time than its limit: a slot was freed and refilled (C08)",
    "W_NobodyHibernates": "a deme hibernates (C18)",
    "W_NobodyWakes": "a hibernating deme is woken by a later round (C18)",
    "W_NoSelfStop": "CMA-ES stops by its own criterion (C06_StopCauses)",
    "W_NoThirdLevelDeme": "a deme exists on the third level (C18 intermediate demes)",
    "W_NoWindDown": "a deme performs an engine iteration after the global condition was first observed true (C05)",
    "W_NoJustFinishedOffer": "NBCGeneratorWithLocalMethod: a just-finished deme hands its best to a local search (C10)",
    "Inv_G_SinceSproutRawNonNegAlways": "with hibernation the raw distance to the last sprout goes negative (growth: why the clamp of fix 7ee42ca is needed)",
}


def _witnesses(d: Path) -> dict:
    from concurrent.futures import ThreadPoolExecutor
    base = (Path(__file__).resolve().parent.parent / "spec" / "HMS_witness.cfg").read_text()

    def one(name):
        cfgp = d / f"witness_{name}.cfg"
        cfgp.write_text(base.replace("Inv_C18_NoIdleMetaepoch", name))
        w = run_tlc("MC_HMS", str(cfgp), d / f"w_{name}", workers=2, timeout=900, heap="2g")
        if not w.ok and not w.violated:
            raise MachineryError(f"witness run {name} failed:\n" + "\n".join(w.out.splitlines()[-15:]))
        steps = len(re.findall(r"^State \d+:", w.out, re.M))
        return name, {"reachable": name in w.violated, "states_to_witness": steps, "distinct_explored": w.distinct}
    with ThreadPoolExecutor(max_workers=6) as ex:
        return dict(ex.map(one, WITNESSES))


def model_stage(tier: str) -> dict:
    def build(d: Path) -> dict:
        cfg = "HMS_quick.cfg" if tier == "quick" else "HMS_thorough.cfg"
        r = run_tlc("MC_HMS", cfg, d, coverage=True, timeout=5400)
        if not r.ok and not r.violated:
            raise MachineryError("design model failed:\n" + "\n".join(r.out.splitlines()[-30:]))
        cov = {a: list(r.coverage.get(a, (0, 0))) for a in ACTIONS}
        untaken = [a for a, (dist, tot) in cov.items() if tot == 0]
        # the stall of known finding KF-C18-stall must be reachable in the design (witness run)
        w = run_tlc("MC_HMS", "HMS_witness.cfg", d, timeout=1200)
        witness = "Inv_C18_NoIdleMetaepoch" in w.violated
        trace = ""
        if witness:
            m = re.search(r"Error: The behavior up to this point is:(.*)", w.out, re.S)
            steps = len(re.findall(r"^State \d+:", w.out, re.M))
            trace = f"{steps} states to the idle metaepoch"
        sim = None
        if tier != "quick":
            # random deep behaviours under larger constants (8 metaepochs, 9 demes, 3 candidates per parent): invariants only
            sr = run_tlc("MC_HMS", "HMS_thorough_sim.cfg", d / "sim", workers=8, timeout=1500, heap="4g",
                         simulate="num=6000", depth=400, tlc_seed=7)
            if not sr.ok and not sr.violated:
                raise MachineryError("simulation run of the design model failed:\n" + "\n".join(sr.out.splitlines()[-20:]))
            m = re.search(r"(\d+) states checked, (\d+) traces generated", sr.out)
            sim = {"cfg": "HMS_thorough_sim.cfg", "states_checked": int(m.group(1)) if m else 0, "traces": int(m.group(2)) if m else 0,
                   "violated": sr.violated, "wall_s": round(sr.wall_s, 1)}
            r.violated.extend(sr.violated)
        # liveness: with a global condition that must hold eventually every fair behaviour ends (no state constraint)
        lv = run_tlc("MC_HMS", "HMS_live.cfg", d / "live", workers=4, timeout=1800, heap="4g")
        if not lv.ok and not lv.violated:
            raise MachineryError("liveness run failed:\n" + "\n".join(lv.out.splitlines()[-20:]))
        live = {"cfg": "HMS_live.cfg", "distinct_states": lv.distinct, "terminates": not lv.violated, "wall_s": round(lv.wall_s, 1)}
        if lv.violated:
            r.violated.append("Termination")
        # caller-driven stepping (run_step() although the global condition holds): every clause except the sentences about run()
        mn = run_tlc("MC_HMS", "HMS_manual.cfg", d / "manual", workers=8, timeout=2400, heap="4g")
        if not mn.ok and not mn.violated:
            raise MachineryError("manual-stepping run failed:\n" + "\n".join(mn.out.splitlines()[-20:]))
        manual = {"cfg": "HMS_manual.cfg", "distinct_states": mn.distinct, "violated": mn.violated, "wall_s": round(mn.wall_s, 1)}
        r.violated.extend(mn.violated)
        # protocol variants inside a deme's metaepoch that no property excludes (met in behaviour-preserving refactorings and
        # accepted by the trace specification): every clause must hold for them too, and both must have been taken
        vr = run_tlc("MC_HMS", "HMS_variants.cfg", d / "variants", workers=8, timeout=2400, heap="4g", coverage=True)
        if not vr.ok and not vr.violated:
            raise MachineryError("protocol-variants run failed:\n" + "\n".join(vr.out.splitlines()[-20:]))
        vcov = {a: list(vr.coverage.get(a, (0, 0))) for a in ("LscFirst", "SelfStopSilently", "SproutAbandoned")}
        variants = {"cfg": "HMS_variants.cfg", "distinct_states": vr.distinct, "violated": vr.violated, "wall_s": round(vr.wall_s, 1),
                    "taken": vcov}
        r.violated.extend(vr.violated)
        wit = _witnesses(d)
        unreachable = [f"model witness not reachable: {n} ({WITNESSES[n]})" for n, v in wit.items() if not v["reachable"]]
        unreachable += [f"protocol variant never taken in HMS_variants.cfg: {a}" for a, (dist, tot) in vcov.items() if tot == 0]
        return {"manual_stepping": manual, "protocol_variants": variants, "simulation": sim, "liveness": live, "witnesses": wit, "unreachable_witnesses": unreachable,
                "cfg": cfg, "generated": r.generated, "distinct": r.distinct, "depth": r.depth,
                "violated": r.violated, "tail": r.out[-2500:] if r.violated else "",
                "action_coverage": cov, "untaken_actions": untaken, "wall_s": round(r.wall_s, 1),
                "stall_witness_reachable": witness, "stall_witness": trace}
    return stage("model", tier, build)
