"""Stage: the design model (HMSModel.tla / MC_HMS.tla) checked exhaustively by TLC."""
from __future__ import annotations

import re
from pathlib import Path

from .common import MachineryError, run_tlc
from .stages import stage

ACTIONS = ["ChildInit", "LoopCheck", "Begin", "Iter", "GenGsc", "Lsc", "LocalRun", "PostGsc", "Sprout"]


def model_stage(tier: str) -> dict:
    def build(d: Path) -> dict:
        cfg = "HMS_quick.cfg" if tier == "quick" else "HMS_thorough.cfg"
        r = run_tlc("MC_HMS", cfg, d, coverage=True, timeout=3000)
        if not r.ok and not r.violated:
            raise MachineryError("design model failed:\n" + "\n".join(r.out.splitlines()[-30:]))
        cov = {a: list(r.coverage.get(a, (0, 0))) for a in ACTIONS}
        untaken = [a for a, (dist, tot) in cov.items() if tot == 0]
        # the stall of known finding KF-C18-stall must be reachable in the design (witness run)
        w = run_tlc("MC_HMS", "HMS_witness.cfg", d, timeout=1200)
        witness = "Inv_C18_NoIdleMetaepoch" in w.violated
        trace = ""
        if witness:
            m = re.search(r"Error: The behavior up to this point is:(.*)", w.out, re.S)
            steps = len(re.findall(r"^State \d+:", w.out, re.M))
            trace = f"{steps} states to the idle metaepoch"
        return {"cfg": cfg, "generated": r.generated, "distinct": r.distinct, "depth": r.depth,
                "violated": r.violated, "tail": r.out[-2500:] if r.violated else "",
                "action_coverage": cov, "untaken_actions": untaken, "wall_s": round(r.wall_s, 1),
                "stall_witness_reachable": witness, "stall_witness": trace}
    return stage("model", tier, build)
