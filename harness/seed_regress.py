"""Developer tool: regression of the seeded changes.  For every /verif/seeded/<id>/ that some check caught when it was
archived, apply patch.diff to a scratch worktree of /repo (under /tmp, removed afterwards), run the first check that
caught it (from frozen copies of /verif's HEAD under /tmp/vsnapr, one per job) and report whether it is still caught.

    python harness/seed_regress.py out.json [--jobs 3] [--only C05-a,C06-b] [--all-catchers]
    python harness/seed_regress.py out.json --refactorings [--jobs 2]     (seeded/R*: all 20 checks, no alarm expected)

Nothing is written under /verif/seeded; the result goes to out.json (and a one-line-per-change log on stdout)."""
import json
import os
import subprocess
import sys
import queue
from concurrent.futures import ThreadPoolExecutor
from pathlib import Path

VERIF = Path("/verif")
SNAPS = queue.Queue()      # one frozen copy of /verif per job (work/, evidence/ and replay/ are per copy)
REPO = "/repo"


def sh(cmd, cwd, timeout=3600, env=None):
    p = subprocess.run(cmd, cwd=cwd, shell=True, capture_output=True, text=True, timeout=timeout, env=env)
    return p.returncode, p.stdout + p.stderr


def one(args):
    sid, checks, ncpu, run_all = args
    run = SNAPS.get()
    wt = f"/tmp/wtr/{sid}"
    sh(f"git -C {REPO} worktree remove --force {wt}", "/")
    rc, o = sh(f"mkdir -p /tmp/wtr && git -C {REPO} worktree add --detach {wt}", "/")
    res = {"id": sid, "checks": {}}
    try:
        rc, o = sh(f"git apply {VERIF}/seeded/{sid}/patch.diff", wt)
        if rc != 0:
            res["error"] = "patch does not apply: " + o[-200:]
            return res
        env = dict(os.environ, VERIF_REPO=wt, VERIF_NCPU=str(ncpu))
        for c in checks:
            rc, o = sh(f"./check {c} --tier quick", run, env=env)
            lines = [l for l in o.splitlines() if l.startswith(("VIOLATION", "  clause", "OK", "KNOWN", "MACHINERY"))]
            res["checks"][c] = {"exit": rc, "first_lines": [l[:200] for l in lines[:3]]}
            if rc == 1 and not run_all:
                break
        res["caught"] = any(r["exit"] == 1 for r in res["checks"].values())
    finally:
        sh(f"git -C {REPO} worktree remove --force {wt}", "/")
        SNAPS.put(run)
    print(sid, "CAUGHT" if res.get("caught") else "MISSED", {c: r["exit"] for c, r in res["checks"].items()}, flush=True)
    return res


def main():
    out = sys.argv[1]
    jobs = int(sys.argv[sys.argv.index("--jobs") + 1]) if "--jobs" in sys.argv else 3
    only = set(sys.argv[sys.argv.index("--only") + 1].split(",")) if "--only" in sys.argv else None
    ncpu = int(sys.argv[sys.argv.index("--ncpu") + 1]) if "--ncpu" in sys.argv else max(2, 14 // jobs)
    todo = []
    refactorings = "--refactorings" in sys.argv
    if refactorings:
        # the other direction: behaviour-preserving refactorings (seeded/R*), all 20 checks, none may raise an alarm
        allc = [f"C{i:02d}" for i in range(1, 21)]
        for d in sorted((VERIF / "seeded").iterdir()):
            if d.name.startswith("R") and (d / "patch.diff").exists() and (not only or d.name in only):
                todo.append((d.name, allc, ncpu, True))
    for d in sorted((VERIF / "seeded").iterdir()):
        if refactorings:
            break
        m = d / "meta.json"
        if not m.exists():
            continue
        j = json.loads(m.read_text())
        if "property" not in j or not j.get("caught_by"):
            continue
        if only and j["id"] not in only:
            continue
        checks = j["caught_by"] if "--all-catchers" in sys.argv else j["caught_by"][:1]
        todo.append((j["id"], checks, ncpu, False))
    for k in range(jobs):
        snap = f"/tmp/vsnapr/{os.getpid()}_{k}"      # (per process: two regressions may run side by side)
        rc, o = sh(f"rm -rf {snap} && mkdir -p {snap} && git -C {VERIF} archive HEAD | tar -x -C {snap} && cd {snap} && ./setup.sh", "/")
        if rc != 0:
            sys.exit("snapshot setup failed: " + o[-300:])
        SNAPS.put(snap)
    with ThreadPoolExecutor(jobs) as ex:
        res = list(ex.map(one, todo))
    json.dump(res, open(out, "w"), indent=1)
    if refactorings:
        alarms = {r["id"]: [c for c, x in r["checks"].items() if x["exit"] != 0] for r in res}
        print(f"{len(res)} refactorings; alarms: { {k: v for k, v in alarms.items() if v} }")
        return
    missed = [r["id"] for r in res if not r.get("caught")]
    print(f"{len(res)} changes, {len(res) - len(missed)} still caught; missed: {missed}")


if __name__ == "__main__":
    main()
