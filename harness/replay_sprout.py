"""C10 / C08 / C09 / C13 (filter decisions): replay the Sprout.tla tables on the real filter objects with
synthetic trees (filters are called directly, as the property's observation point says)."""
from __future__ import annotations

import json
import sys

import numpy as np

from pyhms.core.individual import Individual
from pyhms.core.problem import FunctionProblem
from pyhms.sprout.sprout_candidates import DemeCandidates, DemeFeatures
from pyhms.sprout.sprout_filters import DemeLimit, FarEnough, LevelLimit, NBC_FarEnough, SkipSameSprout

BOUNDS = np.array([[-100.0, 100.0], [-100.0, 100.0]])
PROB = {False: FunctionProblem(lambda x: 0.0, bounds=BOUNDS, maximize=False),
        True: FunctionProblem(lambda x: 0.0, bounds=BOUNDS, maximize=True)}
SCALES = [1.0, 0.5, 2.0 ** -10, 1024.0]


class FakeDeme:
    """stand-in for a deme with the read-only surface of AbstractDeme a filter may legitimately look at"""

    def __init__(self, id, level, active=True, centroid=None, seed=None):
        self.id = id
        self.level = level
        self._level = level
        self.is_active = active
        self._active = active
        self._hibernating = False
        self.children = []
        self._children = self.children
        self.centroid = centroid
        self.mean = centroid
        self._sprout_seed = seed
        self.started_at = 0
        self._started_at = 0
        self.metaepoch_count = 1
        self.current_iteration = 1
        self.n_evaluations = 0
        self.name = f"FakeDeme {id}"

    def __repr__(self):
        return f"FakeDeme({self.id})"


class FakeTree:
    """stand-in for a DemeTree with its read-only surface (levels, height, root, counters, the deme listings)"""
    _count = 0

    def __init__(self, levels):
        self.levels = levels
        self._levels = levels
        self.height = len(levels)
        self.root = levels[0][0]
        FakeTree._count += 1
        self.metaepoch_count = 3 + FakeTree._count % 5
        self.n_evaluations = 0
        self.config = None

    @property
    def all_demes(self):
        return [(i, d) for i, lv in enumerate(self.levels) for d in lv]

    @property
    def active_demes(self):
        return [(i, d) for i, d in self.all_demes if d.is_active]

    @property
    def active_non_leaves(self):
        return [(i, d) for i, d in self.active_demes if i < self.height - 1]

    @property
    def leaves(self):
        return list(self.levels[-1])


def key(i):
    return json.dumps(i)


VALUES = [(10.0, 2.5), (1024.0, 2.0 ** -14)]    # well separated / nearly equal around a large offset
BASE, GAP = VALUES[0]


def fitness(rank, maximize):
    g = BASE + GAP * rank
    return -g if maximize else g


def mk(c, maximize, scale=1.0):
    ind = Individual(np.array([c["pos"][0] * scale, c["pos"][1] * scale]), PROB[maximize], fitness(c["rank"], maximize))
    ind._vid = key(c["id"])
    return ind


def run_filter(flt, tree, parents, cands_by_parent):
    cd = {parents[p]: DemeCandidates(individuals=list(inds), features=DemeFeatures(nbc_mean_distance=None))
          for p, inds in cands_by_parent.items()}
    return cd, flt(cd, tree)


def ids_of(res):
    return sorted(i._vid for dc in res.values() for i in dc.individuals)


# One filter object serves every row (a filter instance outlives a tree: module-level mechanisms, hms() loops); a
# filter that remembers anything about the previous tree answers wrongly for the next one.
SHARED_SKIP = SkipSameSprout()


def main(table_path, out_path):
    viol, n_eval, distinct, samples = [], 0, 0, {}
    nontrivial = 0

    percl = {}

    def bad(clause, sig, det):
        percl[clause] = percl.get(clause, 0) + 1
        if percl[clause] <= 150:
            viol.append({"clause": clause, "signature": sig, "detail": det})

    for line in open(table_path):
        if not line.strip():
            continue
        c = json.loads(line)
        fam = c["fam"]
        distinct += 1
        global BASE, GAP
        BASE, GAP = VALUES[distinct % 2] if fam in ("demelimit", "levellimit") else VALUES[0]
        ok = {json.dumps(sorted(key(i) for i in s)) for s in c["ok"]}
        if len(c["cands"]) > 1:
            nontrivial += 1
        results = {}
        for maximize in (False, True):
            for scale in (SCALES if fam in ("far", "nbcfar", "skipsame", "skipsame3") else [1.0]):
                n_eval += 1
                inds = {}
                for cand in c["cands"]:
                    inds.setdefault(cand["par"], []).append(mk(cand, maximize, scale))
                allinds = [i for v in inds.values() for i in v]
                root = FakeDeme("root", 0)
                A, B = FakeDeme("A", 1), FakeDeme("B", 1)
                parents = {"root": root, "A": A, "B": B}
                lvl1, lvl2 = [A, B], []
                sig = f"family={fam} maximize={maximize} scale={scale} "
                if fam == "demelimit":
                    flt = DemeLimit(c["k"])
                    sig += f"k={c['k']} ranks={[x['rank'] for x in c['cands']]}"
                    clause = "C10_DemeLimit"
                elif fam == "levellimit":
                    flt = LevelLimit(c["L"])
                    lvl1 += [FakeDeme(f"x{i}", 1) for i in range(c["a1"] - 2)]
                    lvl2 = [FakeDeme(f"c{i}", 2, True) for i in range(c["a2"])] + [FakeDeme(f"d{i}", 2, False) for i in range(c["i2"])]
                    # a well-formed tree: the existing level-2 demes are children of A, of B and of a level-1 deme
                    # that has already stopped (its children may still be running)
                    finished = FakeDeme("F", 1, active=False)
                    lvl1.append(finished)
                    for k, ch in enumerate(lvl2):
                        [A, B, finished][k % 3].children.append(ch)
                    for x in lvl1:
                        if x not in (A, B, finished):
                            root.children.append(x)
                    root.children += [A, B, finished]
                    for p in ("root", "A", "B"):
                        inds.setdefault(p, [])
                    sig += (f"L={c['L']} active(level1)={c['a1']} active(level2)={c['a2']} inactive(level2)={c['i2']} "
                            f"cands={[(x['par'], x['rank']) for x in c['cands']]}")
                    clause = "C10_LevelLimit"
                elif fam == "skipsame":
                    flt = SHARED_SKIP if distinct % 2 else SkipSameSprout()
                    for s in c["seeds"]:
                        ch = FakeDeme(f"k{len(lvl2)}", 2, True,
                                      seed=Individual(np.array([s["pos"][0] * scale, s["pos"][1] * scale]), PROB[maximize], 1.0))
                        parents[s["par"]].children.append(ch)
                        lvl2.append(ch)
                    sig += f"cands={[(x['par'], x['pos']) for x in c['cands']]} seeds={[(s['par'], s['pos']) for s in c['seeds']]}"
                    clause = "C10_SkipSameSprout"
                elif fam == "skipsame3":
                    # parents on two levels: root (children A, B with their own sprout seeds) and A (children on level 2)
                    flt = SHARED_SKIP if distinct % 2 else SkipSameSprout()

                    def seed_ind(pos):
                        return Individual(np.array([pos[0] * scale, pos[1] * scale]), PROB[maximize], 1.0)
                    A._sprout_seed, B._sprout_seed = seed_ind(c["seedA"]), seed_ind(c["seedB"])
                    root.children += [A, B]
                    for s in c["seeds"]:
                        ch = FakeDeme(f"k{len(lvl2)}", 2, True, seed=seed_ind(s["pos"]))
                        parents[s["par"]].children.append(ch)
                        lvl2.append(ch)
                    sig += (f"seedA={c['seedA']} seedB={c['seedB']} cands={[(x['par'], x['pos']) for x in c['cands']]} "
                            f"seeds(level2)={[(s['par'], s['pos']) for s in c['seeds']]}")
                    clause = "C10_SkipSameSprout"
                elif fam == "far":
                    ordv = {1: 1, 2: 2, 3: np.inf, 4: 3, 5: 4}[c["ord"]]
                    if c.get("onthr"):
                        continue            # (p-th roots are inexact: a distance exactly on the threshold is not decided)
                    flt = FarEnough(c["thr"] * scale, ordv)
                    lvl2 = [FakeDeme(f"s{i}", 2, s["active"], centroid=np.array([s["pos"][0] * scale, s["pos"][1] * scale]))
                            for i, s in enumerate(c["sibs"])]
                    sig += f"thr={c['thr']} ord={c['ord']} sibs={[(s['pos'], s['active']) for s in c['sibs']]} cands={[x['pos'] for x in c['cands']]}"
                    clause = "C09_FarEnoughFilter"
                else:
                    flt = NBC_FarEnough(float(c["factor"]), 2, c["only"])
                    lvl2 = [FakeDeme(f"s{i}", 2, s["active"], centroid=np.array([s["pos"][0] * scale, s["pos"][1] * scale]))
                            for i, s in enumerate(c["sibs"])]
                    sig += (f"factor={c['factor']} mean={c['mean']} only_active={c['only']} "
                            f"sibs={[(s['pos'], s['active']) for s in c['sibs']]} cands={[x['pos'] for x in c['cands']]}")
                    clause = "C09_NBCFarEnoughFilter"
                tree = FakeTree([[root], lvl1, lvl2])
                cd = {parents[p]: DemeCandidates(individuals=list(v), features=DemeFeatures(
                    nbc_mean_distance=(c["mean"] * scale if fam == "nbcfar" else None))) for p, v in inds.items()}
                try:
                    if fam == "skipsame3":      # the mechanism may list the parents in either order
                        rev = {k: DemeCandidates(individuals=list(v.individuals), features=v.features)
                               for k, v in reversed(list(cd.items()))}
                        got_rev = ids_of(flt(rev, tree))
                    res = flt(cd, tree)
                except Exception as ex:  # noqa: BLE001
                    bad(clause, sig, {"exception": repr(ex)[:200]})
                    continue
                got = ids_of(res)
                if fam == "skipsame3" and json.dumps(got_rev) not in ok:
                    bad(clause, sig + " (parents listed in reverse order)", {"got": got_rev, "acceptable": sorted(ok)[:6]})
                gk = json.dumps(got)
                results[(maximize, scale)] = gk
                out_inds = [i for dc in res.values() for i in dc.individuals]
                if any(all(o is not a for a in allinds) for o in out_inds):
                    bad("C10_FiltersOnlyRemove", sig, {"got": got})
                if gk not in ok:
                    bad(clause, sig, {"got": got, "acceptable": sorted(ok)[:6]})
                    if fam == "levellimit":
                        for t, act in ((1, c["a1"]), (2, c["a2"])):
                            kept = sum(1 for p, dc in res.items() if p.level + 1 == t for _ in dc.individuals)
                            if kept > max(0, c["L"] - act):
                                bad("C08_RoundWithinFreeSlots", sig, {"kept": kept, "free": max(0, c["L"] - act), "level": t})
                if fam not in samples and len(c["cands"]) >= 2 and not maximize:
                    samples[fam] = {"case": {k: v for k, v in c.items() if k != "ok"}, "acceptable": c["ok"][:4], "got": got}
        # C13: the same decision on (f, maximize) and (-f, minimize)
        for scale in SCALES:
            a, b = results.get((False, scale)), results.get((True, scale))
            if a is not None and b is not None and a != b:
                bad("C13_FilterDirectionSymmetry", f"family={fam} scale={scale} case={json.dumps({k: v for k, v in c.items() if k != 'ok'})[:300]}",
                    {"minimize": a, "maximize": b})
    json.dump({"evaluations": n_eval, "distinct": distinct, "nontrivial": nontrivial, "violations": viol,
               "samples": list(samples.values())}, open(out_path, "w"))


if __name__ == "__main__":
    main(sys.argv[1], sys.argv[2])
